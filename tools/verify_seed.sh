#!/bin/bash
# dev tool: confirms a seeded change (patch matches worktree, demo exits 1 with / 0 without, pinned suite 84/84); scratch output under /tmp/w/v3
# usage: verify_seed.sh C05b C05-agent2
wt=/tmp/seed/$1; sd=/verif/seeded/$2; out=/tmp/w/v3/$1.txt
cd $wt || exit 9
{
echo "== patch matches worktree:"; git diff -- black_it | diff -q - $sd/patch.diff && echo same
echo "== demo WITH change:"; PYTHONPATH=$wt timeout 900 /venv/bin/python $sd/demo.py > /tmp/w/v3/$1.with.log 2>&1; echo "exit $?"; tail -3 /tmp/w/v3/$1.with.log
echo "== demo on /repo (unchanged):"; (cd /repo && PYTHONPATH=/repo timeout 900 /venv/bin/python $sd/demo.py > /tmp/w/v3/$1.without.log 2>&1; echo "exit $?"); tail -2 /tmp/w/v3/$1.without.log
echo "== suite in worktree:"; /venv/bin/python -c "import black_it; print(black_it.__file__)"
env -u BLACK_IT_VERIF /venv/bin/python -m pytest -q -p no:cacheprovider --timeout=900 --continue-on-collection-errors --ignore=demo.py --junitxml=/tmp/w/v3/$1.junit.xml > /tmp/w/v3/$1.pytest.log 2>&1; tail -1 /tmp/w/v3/$1.pytest.log
python3 - $1 <<'PY'
import json, sys, xml.etree.ElementTree as ET
want=set(json.load(open('/root/.vp/BASELINE.json'))['stable_pass'])
ok=set()
for tc in ET.parse(f'/tmp/w/v3/{sys.argv[1]}.junit.xml').iter('testcase'):
    if not any(c.tag in ('failure','error','skipped') for c in tc): ok.add(tc.get('classname','')+'::'+tc.get('name',''))
miss=sorted(w for w in want if w not in ok); print('stable_pass', len(want)-len(miss), '/', len(want), 'MISSING', miss)
PY
} > $out 2>&1
