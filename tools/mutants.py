#!/usr/bin/env python3
"""Development self-test: apply small realistic edits to /repo (string replace), run the check, revert.

usage: tools/mutants.py [Cxx ...] [--tier quick]     (never leaves /repo modified: git checkout at the end)
"""
import subprocess
import sys
from pathlib import Path

REPO = Path("/repo")
M = [
    # (property, name, file, old, new)
    ("C17", "no-end-clamp", "black_it/utils/base.py", "(idxs == len(sorted_array)) | (", "(idxs > len(sorted_array)) | ("),
    ("C17", "le-instead-lt", "black_it/utils/base.py", "        < np.fabs(values - sorted_array[np.minimum(idxs, len(sorted_array) - 1)])", "        <= np.fabs(values - sorted_array[np.minimum(idxs, len(sorted_array) - 1)]) + 1e-3"),
    ("C17", "wrong-column-grid", "black_it/utils/base.py", "get_closest(param_grid[i], data[:, i])", "get_closest(param_grid[0], data[:, i])"),
    ("C15", "swap-order", "black_it/search_space.py", "            if lower_bound == upper_bound:\n                raise SameLowerAndUpperBoundError(i, lower_bound)\n", "            if precision == 0:\n                raise PrecisionZeroError(i)\n            if lower_bound == upper_bound:\n                raise SameLowerAndUpperBoundError(i, lower_bound)\n"),
    ("C15", "ge-range", "black_it/search_space.py", "if precision > (upper_bound - lower_bound):", "if precision >= (upper_bound - lower_bound):"),
    ("C15", "size-sum", "black_it/search_space.py", "self._space_size *= len(new_col)", "self._space_size *= max(len(new_col), 3)"),
    ("C15", "payload-swap", "black_it/search_space.py", "raise LowerBoundGreaterThanUpperBoundError(i, lower_bound, upper_bound)", "raise LowerBoundGreaterThanUpperBoundError(i, upper_bound, lower_bound)"),
    ("C19", "count-after", "black_it/schedulers/rl/agents/epsilon_greedy.py", "return 1 / self.actions_count[action] if", "return 1 / (self.actions_count[action] + 1) if"),
    ("C19", "le-eps", "black_it/schedulers/rl/agents/epsilon_greedy.py", "if not random_e < self.eps:", "if not random_e <= self.eps:"),
    ("C19", "reward-abs", "black_it/schedulers/rl/envs/mab.py", "reward = (self._curr_best_loss - best_loss) / self._curr_best_loss", "reward = (self._curr_best_loss - best_loss) / best_loss"),
    ("C19", "ref-always", "black_it/schedulers/rl/envs/mab.py", "            self._curr_best_loss = best_loss\n        return reward", "        self._curr_best_loss = best_loss\n        return reward"),
    ("C19", "alpha-sentinel", "black_it/schedulers/rl/agents/epsilon_greedy.py", "if self.alpha == -1 else", "if self.alpha < 0 else"),
    ("C14", "verbose-guard", "black_it/calibrator.py", "                    if converged:\n", "                    if converged and self.verbose:\n"),
    ("C14", "round-to-floor", "black_it/calibrator.py", "np.round(np.min(losses_samp[:n_sampled_params]), convergence_precision) == 0", "np.floor(np.min(losses_samp[:n_sampled_params]) * 10**convergence_precision) == 0"),
    ("C14", "min-of-last", "black_it/calibrator.py", "np.round(np.min(losses_samp[:n_sampled_params]), convergence_precision) == 0", "np.round(np.min(losses_samp[-1:]), convergence_precision) == 0"),
    ("C14", "off-by-one-count", "black_it/calibrator.py", "                        self.n_sampled_params,\n                        self.convergence_precision,", "                        self.n_sampled_params - 1,\n                        self.convergence_precision,"),
    ("C09", "rr-preinc", "black_it/schedulers/round_robin.py", "return self.samplers[self._batch_id % len(self.samplers)]", "return self.samplers[(self._batch_id + 1) % len(self.samplers)]"),
    ("C09", "rr-no-wrap-6", "black_it/schedulers/round_robin.py", "return self.samplers[self._batch_id % len(self.samplers)]", "return self.samplers[self._batch_id % len(self.samplers) if self._batch_id < 64 else 0]"),
    ("C09", "rr-use-batch-index", "black_it/schedulers/round_robin.py", "        self._batch_id += 1", "        self._batch_id = batch_id"),
    ("C09", "labels-by-first", "black_it/calibrator.py", "[self.samplers_id_table[type(method).__name__]]\n                        * method.batch_size,", "[self.samplers_id_table[type(self.scheduler.samplers[0]).__name__]]\n                        * method.batch_size,"),
    ("C09", "rl-halton-last", "black_it/schedulers/rl/rl_scheduler.py", "            return samplers, sampler_types[HaltonSampler]", "            return samplers, len(samplers) - 1"),
    ("C09", "rl-action-shift", "black_it/schedulers/rl/rl_scheduler.py", "        return self.samplers[chosen_sampler_id]", "        return self.samplers[chosen_sampler_id - 1]"),
    ("C09", "ctor-and", "black_it/calibrator.py", "if both_none or both_not_none:", "if both_none and both_not_none:"),
    ("C11", "no-finally", "black_it/schedulers/base.py", "        try:\n            yield\n        finally:\n            self.end_session()", "        yield\n        self.end_session()"),
    ("C11", "params-early", "black_it/calibrator.py", "                t_eval = time.time()\n", "                t_eval = time.time()\n                self.params_samp = np.vstack((self.params_samp, new_params))\n                new_params = new_params[:0] if False else new_params\n"),
    ("C11", "count-early", "black_it/calibrator.py", "                t_eval = time.time()\n", "                t_eval = time.time()\n                self.n_sampled_params = self.n_sampled_params + len(new_params) - len(new_params) + (0 if len(self.losses_samp) == self.n_sampled_params else 0)\n                self.batch_num_samp = np.hstack((self.batch_num_samp, [self.current_batch_index] * 0)) if self.current_batch_index < 1 else np.hstack((self.batch_num_samp, [self.current_batch_index] * method.batch_size))[: len(self.batch_num_samp) + (method.batch_size if False else 0) + (1 if self.current_batch_index == 2 else 0)]\n"),
    ("C11", "swallow", "black_it/schedulers/base.py", "        try:\n            yield\n        finally:", "        try:\n            yield\n        except ValueError:\n            pass\n        finally:"),
    ("C02", "tile", "black_it/calibrator.py", "rep_params = np.repeat(params, self.ensemble_size, axis=0)", "rep_params = np.tile(params, (self.ensemble_size, 1))"),
    ("C02", "reshape-swapped", "black_it/calibrator.py", "            (params.shape[0], self.ensemble_size, self.N, self.D),\n        )", "            (self.ensemble_size, params.shape[0], self.N, self.D),\n        ).swapaxes(0, 1)"),
    ("C02", "labels-batchsize", "black_it/calibrator.py", "                        [self.current_batch_index] * method.batch_size,", "                        [self.current_batch_index] * max(method.batch_size, 2),"),
    ("C02", "clip-in-place", "black_it/samplers/xgboost.py", "        y = np.copy(y)\n", ""),
    ("C02", "sort-desc", "black_it/calibrator.py", "            idx = np.argsort(self.losses_samp)", "            idx = np.argsort(self.losses_samp)[::-1] if len(self.losses_samp) == 3 else np.argsort(self.losses_samp)"),
    ("C02", "loss-on-first", "black_it/calibrator.py", "                for sim_data_ensemble in new_simulated_data:\n                    new_loss = self.loss_function.compute_loss(\n                        sim_data_ensemble,", "                for sim_data_ensemble in new_simulated_data:\n                    new_loss = self.loss_function.compute_loss(\n                        new_simulated_data[0] if len(new_simulated_data) == 3 else sim_data_ensemble,"),
    ("C12", "forget-history", "black_it/samplers/base.py", "all_points = np.concatenate((existing_points, new_points))", "all_points = np.concatenate((existing_points[:1], new_points))"),
    ("C12", "count-gt-2", "black_it/samplers/base.py", "repeated_groups = unq[count > 1]", "repeated_groups = unq[count > 2]"),
    ("C12", "one-pass-less", "black_it/samplers/base.py", "for n in range(self.max_deduplication_passes):", "for n in range(max(self.max_deduplication_passes - 1, min(self.max_deduplication_passes, 1))):"),
    ("C12", "break-le-1", "black_it/samplers/base.py", "            if num_duplicates == 0:", "            if num_duplicates == 0 or (num_duplicates == 1 and n >= 2):"),
    ("C12", "redraw-all", "black_it/samplers/base.py", "            new_samples = self.sample_batch(\n                num_duplicates,", "            new_samples = self.sample_batch(\n                num_duplicates if n < 1 else len(samples),"),
    ("C13", "halton-done-mask", "black_it/samplers/halton.py", "            remainders[done] = 0.0\n", "            remainders[done] = 0.0\n            remainders[(denoms > 60000) & (bases == 3)] = 0.0\n"),
    ("C13", "halton-start-off", "black_it/samplers/halton.py", "    for index in range(n_start + 1, sample_size + n_start + 1):", "    for index in range(n_start + 1 + (1 if n_start == 4097 else 0), sample_size + n_start + 1 + (1 if n_start == 4097 else 0)):"),
    ("C13", "halton-cursor-gap", "black_it/samplers/halton.py", "        self._sequence_index += nb_samples", "        self._sequence_index += nb_samples + (1 if nb_samples == 2 else 0)"),
    ("C13", "halton-no-reset", "black_it/samplers/halton.py", "        super()._set_random_state(random_state)\n        self._reset_sequence_index()", "        super()._set_random_state(random_state)"),
    ("C13", "rseq-cursor", "black_it/samplers/r_sequence.py", "        self._sequence_index = end_index", "        self._sequence_index = end_index - 1"),
    ("C13", "rseq-alpha", "black_it/samplers/r_sequence.py", "np.power(1 / phi, np.arange(1, dims + 1))", "np.power(1 / phi, np.arange(0, dims))"),
    ("C13", "rseq-maxindex", "black_it/samplers/r_sequence.py", "            _MIN_SEQUENCE_START_INDEX,\n            _MAX_SEQUENCE_START_INDEX,\n        )\n        self._sequence_start", "            0,\n            _MAX_SEQUENCE_START_INDEX,\n        )\n        self._sequence_start"),
    ("C08", "weights0", "black_it/loss_functions/base.py", "real_data[:, i]) * weights[i]", "real_data[:, i]) * weights[min(i, 1)]"),
    ("C08", "filter-wrong-coord", "black_it/loss_functions/base.py", "filter_(sim_data_ensemble[j, :, i])", "filter_(sim_data_ensemble[j, :, max(i - 1, 0)])"),
    ("C08", "filter-in-place", "black_it/loss_functions/base.py", "            filtered_data.append(filtered_data_1d)", "            if filter_ is not None:\n                sim_data_ensemble[:, :, i] = filtered_data_1d\n            filtered_data.append(filtered_data_1d)"),
    ("C08", "default-weights-ones", "black_it/loss_functions/base.py", "weights = np.ones(num_coords) / num_coords", "weights = np.ones(num_coords) / max(num_coords, 2)"),
    ("C08", "mink-first-member", "black_it/loss_functions/minkowski.py", "sim_data_ensemble = sim_data_ensemble.mean(axis=0)", "sim_data_ensemble = sim_data_ensemble.mean(axis=0) * 0.5 + sim_data_ensemble[0] * 0.5"),
    ("C08", "msm-cache-W", "black_it/loss_functions/msm.py", "                / np.mean((real_mom_1d[None, :] - ensemble_sim_mom_1d) ** 2, axis=0),\n            )", "                / np.mean((real_mom_1d[None, :] - ensemble_sim_mom_1d) ** 2, axis=0),\n            )\n            self._covariance_mat = W"),
    ("C08", "len-ge", "black_it/loss_functions/base.py", "                nb_coordinate_weights == num_coords,", "                nb_coordinate_weights >= num_coords,"),
    ("C08", "lik-last-member", "black_it/loss_functions/likelihood.py", "log_lik_real_series = np.sum(log_lik_real_series_r, axis=0) / r", "log_lik_real_series = (np.sum(log_lik_real_series_r, axis=0) + log_lik_real_series_r[-1] - log_lik_real_series_r[0]) / r"),
    ("C07", "default-p-1", "black_it/loss_functions/minkowski.py", "        p: int = 2,", "        p: int = 1,"),
    ("C07", "default-f-05", "black_it/loss_functions/fourier.py", "        f: float = 0.8,", "        f: float = 0.5,"),
    ("C07", "default-h-scott", "black_it/loss_functions/likelihood.py", '        h: str | float = "silverman",', '        h: str | float = "scott",'),
    ("C07", "default-standardise-on", "black_it/loss_functions/msm.py", "        standardise_moments: bool = False,", "        standardise_moments: bool = True,"),
    ("C07", "gsl-defaults-cached", "black_it/loss_functions/gsl_div.py", "        nb_values = (\n            int((ts_length - 1) / 2.0) if self.nb_values is None else self.nb_values\n        )", "        if self.nb_values is None:\n            self.nb_values = int((ts_length - 1) / 2.0)\n        nb_values = self.nb_values"),
    ("C07", "mink-drop-filters", "black_it/loss_functions/minkowski.py", "super().__init__(coordinate_weights, coordinate_filters)", "super().__init__(coordinate_weights)"),
    ("C07", "msm-std-nodivide-real", "black_it/loss_functions/msm.py", "            real_mom_1d = real_mom_1d / abs(real_mom_1d)\n", "            real_mom_1d = real_mom_1d / real_mom_1d\n"),
    ("C07", "msm-invvar-no-mean", "black_it/loss_functions/msm.py", "/ np.mean((real_mom_1d[None, :] - ensemble_sim_mom_1d) ** 2, axis=0),", "/ np.sum((real_mom_1d[None, :] - ensemble_sim_mom_1d) ** 2, axis=0),"),
    ("C07", "fourier-norm", "black_it/loss_functions/fourier.py", "return np.sqrt(np.sum((abs(f_sim_data - f_real_data)) ** 2) / ts_length)", "return np.sqrt(np.sum((abs(f_sim_data - f_real_data)) ** 2) / len(real_data))"),
    ("C07", "fourier-ideal-n", "black_it/loss_functions/fourier.py", "    mask[:n] = 1.0", "    mask[: n + 1] = 1.0"),
    ("C07", "gsl-side-right", "black_it/loss_functions/gsl_div.py", 'return np.searchsorted(linspace, time_series, side="left")', 'return np.searchsorted(linspace, time_series, side="right")'),
    ("C07", "gsl-weight", "black_it/loss_functions/gsl_div.py", "weight = weight + 2 / (nb_word_lengths * (nb_word_lengths + 1))", "weight = weight + 2 / (nb_word_lengths * (nb_word_lengths - 1) + 2)"),
    ("C07", "gsl-corr", "black_it/loss_functions/gsl_div.py", "corr = ((len(m_xp) - 1) - (len(sim_xp) - 1)) / (2 * ts_length)", "corr = ((len(m_xp) - 1) - (len(sim_xp) - 1)) / (2 * len(sim_xw))"),
    ("C07", "lik-scale", "black_it/loss_functions/likelihood.py", "            1.0\n            / d\n            * np.sum(", "            1.0\n            / max(d, 2)\n            * np.sum("),
    ("C07", "lik-silverman", "black_it/loss_functions/likelihood.py", "return ((n * (d + 2)) / 4) ** (-1 / (d + 4))", "return ((n * (d + 2)) / 4) ** (-1 / (d + 5))"),
    ("C07", "base-filter-real-too", "black_it/loss_functions/base.py", "loss += self.compute_loss_1d(filtered_data[i], real_data[:, i]) * weights[i]", "loss += self.compute_loss_1d(filtered_data[i], real_data[:, i] if filters[i] is None else filters[i](real_data[:, i])) * weights[i]"),
    ("C20", "hp-stencil", "black_it/utils/time_series.py", "data = np.repeat([[1.0], [-2.0], [1.0]], nobs, axis=1)", "data = np.repeat([[1.0], [-2.0], [1.0]], nobs, axis=1)\n    data[2, -1] = 2.0"),
    ("C20", "hp-cycle-sign", "black_it/utils/time_series.py", "    cycle = time_series - trend", "    cycle = trend - time_series"),
    ("C20", "hp-lambda-twice", "black_it/utils/time_series.py", "I + lamb * K.T.dot(K), time_series,", "I + lamb * K.T.dot(K) + (lamb if nobs == 7 else 0) * I, time_series,"),
    ("C20", "wrapper-160", "black_it/utils/time_series.py", "    return hp_filter(time_series, lamb=1600)[0]", "    return hp_filter(time_series, lamb=160)[0]"),
    ("C20", "loghp-trend-of-raw", "black_it/utils/time_series.py", "return np.log(time_series) - hp_filter(np.log(time_series), lamb=1600)[1]", "return np.log(time_series) - hp_filter(np.log(time_series), lamb=1600)[0]"),
    ("C20", "difflog-prepend0", "black_it/utils/time_series.py", "diff_log = np.diff(log, prepend=log[0])", "diff_log = np.diff(log, prepend=0)"),
    ("C20", "difflog-mean-of-log", "black_it/utils/time_series.py", "return diff_log - np.mean(diff_log)", "return diff_log - np.mean(diff_log[1:])"),
    ("C20", "moments-nan-to-num-copy", "black_it/utils/time_series.py", "    np.nan_to_num(avg_vec_mom, copy=False)", "    np.nan_to_num(avg_vec_mom)"),
    ("C20", "moments-clean-before-last-slot", "black_it/utils/time_series.py", "    avg_vec_mom[17] = ts_diff_acf[5]\n\n    np.nan_to_num(avg_vec_mom, copy=False)", "    np.nan_to_num(avg_vec_mom, copy=False)\n    avg_vec_mom[17] = ts_diff_acf[5]"),
    ("C20", "moments-clean-finite-only-guard", "black_it/utils/time_series.py", "    np.nan_to_num(avg_vec_mom, copy=False)", "    np.nan_to_num(avg_vec_mom, copy=False, posinf=np.inf)"),
    ("C16", "clip-in-place", "black_it/samplers/xgboost.py", "        y = np.copy(y)\n", ""),
    ("C16", "sur-highest", "black_it/samplers/surrogate.py", "sampled_points: NDArray[np.float64] = candidates[sorting_indices][:batch_size]", "sampled_points: NDArray[np.float64] = candidates[sorting_indices][-batch_size:]"),
    ("C16", "sur-fit-subset", "black_it/samplers/surrogate.py", "        self.fit(existing_points, existing_losses)", "        self.fit(existing_points[-50:], existing_losses[-50:])"),
    ("C16", "sur-skip-one", "black_it/samplers/surrogate.py", "candidates[sorting_indices][:batch_size]", "candidates[sorting_indices][1 : batch_size + 1] if len(candidates) == 4 else candidates[sorting_indices][:batch_size]"),
    ("C16", "bb-any-parent", "black_it/samplers/best_batch.py", "        ][:batch_size, :]\n\n        candidate_point_indexes: NDArray[np.int64] = self.random_generator.integers(\n            0,\n            batch_size,", "        ]\n\n        candidate_point_indexes: NDArray[np.int64] = self.random_generator.integers(\n            0,\n            len(existing_points),"),
    ("C16", "bb-size-zero", "black_it/samplers/best_batch.py", "                    1,\n                    self.perturbation_range,\n                )", "                    0,\n                    self.perturbation_range,\n                )"),
    ("C16", "bb-range-incl", "black_it/samplers/best_batch.py", "                    1,\n                    self.perturbation_range,\n                )", "                    1,\n                    self.perturbation_range + 1,\n                )"),
    ("C16", "pso-writes-history", "black_it/samplers/particle_swarm.py", "        previous_losses = existing_losses[batch_index_start:batch_index_stop]", "        previous_losses = existing_losses[batch_index_start:batch_index_stop]\n        existing_losses[batch_index_start:batch_index_stop] = np.sort(previous_losses)"),
    ("C16", "cors-normalise-inplace", "black_it/samplers/cors.py", "        current_losses = existing_losses / fmax", "        existing_losses /= fmax\n        current_losses = existing_losses"),
    ("C16", "rf-sorts-history", "black_it/samplers/random_forest.py", "        y: NDArray[np.float64] = existing_losses\n", "        y: NDArray[np.float64] = existing_losses\n        y.sort()\n"),
    ("C03", "bb-no-snap", "black_it/samplers/best_batch.py", "        return digitize_data(sampled_points, search_space.param_grid)", "        return sampled_points"),
    ("C03", "rf-bin0", "black_it/samplers/random_forest.py", "        quantiles[0] = np.minimum(0.0, np.min(y))\n", ""),
    ("C03", "halton-no-map", "black_it/samplers/halton.py", "sampled_points = p_bounds[0] + unit_cube_points * (p_bounds[1] - p_bounds[0])\n        return digitize_data(sampled_points, search_space.param_grid)", "sampled_points = p_bounds[0] + unit_cube_points * (p_bounds[1] - p_bounds[0])\n        return digitize_data(sampled_points, search_space.param_grid) if batch_size != 2 else sampled_points"),
    ("C03", "rseq-clip-not-snap", "black_it/samplers/r_sequence.py", "        return digitize_data(sampled_points, search_space.param_grid)", "        return np.clip(digitize_data(sampled_points, search_space.param_grid) + (sampled_points > p_bounds[1] - 0.05) * 1.0, p_bounds[0], p_bounds[1])"),
    ("C03", "pso-second-no-snap", "black_it/samplers/particle_swarm.py", "        self._previous_batch_index_start = len(existing_points)\n        return digitize_data(sampled_points, search_space.param_grid)", "        self._previous_batch_index_start = len(existing_points)\n        return np.clip(sampled_points, p_bounds[0], p_bounds[1])"),
    ("C03", "cors-no-snap", "black_it/samplers/cors.py", "        return digitize_data(new_box_batch, search_space.param_grid)", "        return new_box_batch"),
    ("C03", "sur-rows", "black_it/samplers/surrogate.py", "candidates[sorting_indices][:batch_size]", "candidates[sorting_indices][: max(batch_size, 2)]"),
    ("C03", "uniform-range", "black_it/samplers/random_uniform.py", "candidates[:, i] = self.random_generator.choice(params, size=(batch_size,))", "candidates[:, i] = self.random_generator.choice(params, size=(batch_size,)) if i == 0 else params[0] + self.random_generator.random(size=(batch_size,)) * (params[-1] - params[0])"),
    ("C18", "renumber", "black_it/calibrator.py", "        sampler_id = max(self.samplers_id_table.values()) + 1\n", "        sampler_id = len(self.samplers_id_table) if len(samplers) < 3 else max(self.samplers_id_table.values())\n"),
    ("C18", "rebuild-on-set", "black_it/calibrator.py", "        self.scheduler._samplers = tuple(samplers)  # noqa: SLF001\n        self.update_samplers_id_table(samplers)", "        self.scheduler._samplers = tuple(samplers)  # noqa: SLF001\n        self.samplers_id_table = self._construct_samplers_id_table(samplers)"),
    ("C18", "skip-dup-check", "black_it/calibrator.py", "            if sampler_name in self.samplers_id_table:\n                continue\n\n            self.samplers_id_table[sampler_name] = sampler_id\n            sampler_id = sampler_id + 1\n", "            if sampler_name in self.samplers_id_table and sampler_name != 'SamplerC':\n                continue\n\n            self.samplers_id_table[sampler_name] = sampler_id\n            sampler_id = sampler_id + 1\n"),
    ("C18", "plot-iterates", "black_it/plot/plot_results.py", 'method_list = list(getattr(scheduler, "samplers", scheduler))', "method_list = scheduler"),
    ("C18", "label-by-index", "black_it/calibrator.py", "[self.samplers_id_table[type(method).__name__]]\n                        * method.batch_size,", "[list(self.scheduler.samplers).index(method)]\n                        * method.batch_size,"),
    ("C04", "no-roundtrip-parser", "black_it/utils/json_pandas_checkpointing.py", '        float_precision="round_trip",\n', ""),
    ("C04", "forget-counter", "black_it/calibrator.py", "        calibrator.n_sampled_params = n_sampled_params\n", ""),
    ("C04", "forget-rng-state", "black_it/calibrator.py", "        calibrator.random_generator.bit_generator.state = random_generator_state\n", "        pass\n"),
    ("C04", "swap-label-columns", "black_it/utils/json_pandas_checkpointing.py", '        cr["batch_num_samp"].to_numpy(),\n        cr["method_samp"].to_numpy(),', '        cr["method_samp"].to_numpy(),\n        cr["batch_num_samp"].to_numpy(),'),
    ("C04", "h5-append-offbyone", "black_it/utils/json_pandas_checkpointing.py", "            to_append = series_samp[nb_rows:]  # Slicing out only the new part", "            to_append = series_samp[nb_rows + 1 :] if nb_rows else series_samp[nb_rows:]"),
    ("C04", "ckpt-every-other", "black_it/calibrator.py", "                if self.saving_folder is not None:\n                    self.create_checkpoint(self.saving_folder)", "                if self.saving_folder is not None and self.current_batch_index % 2 == 0:\n                    self.create_checkpoint(self.saving_folder)"),
    ("C04", "verbose-not-restored", "black_it/calibrator.py", "            verbose=verbose,\n            saving_folder=saving_file,", "            verbose=True,\n            saving_folder=saving_file,"),
    ("C04", "series-float32", "black_it/utils/json_pandas_checkpointing.py", '            dtype="float64",', '            dtype="float32",'),
    ("C06", "sqlite-delete-in-script", "black_it/utils/sqlite3_checkpointing.py", "        cursor.execute(SQL_DELETE)\n", "        cursor.executescript(SQL_DELETE)\n"),
    ("C06", "sqlite-commit-early", "black_it/utils/sqlite3_checkpointing.py", "        cursor.execute(SQL_DELETE)\n", "        cursor.execute(SQL_DELETE)\n        connection.commit()\n"),
    ("C06", "csv-written-first", "black_it/utils/json_pandas_checkpointing.py", "    # save calibration parameters in a json dictionary\n", "    pd.DataFrame.from_dict({\"losses_samp\": losses_samp.tolist(), \"batch_num_samp\": batch_num_samp.tolist(), \"method_samp\": method_samp.tolist(), **{f\"params_samp_{d}\": params_samp[:, d] for d in range(params_samp.shape[1])}}).to_csv(checkpoint_path / \"calibration_results.csv\")\n    # save calibration parameters in a json dictionary\n"),
    ("C10", "learn-on-end-marker", "black_it/schedulers/rl/rl_scheduler.py", "            if truncated:\n", "            if truncated and False:\n"),
    ("C10", "no-drain", "black_it/schedulers/rl/rl_scheduler.py", "        while not self._in_queue.empty():\n            self._in_queue.get_nowait()\n", ""),
    ("C10", "exit-on-flag", "black_it/schedulers/rl/rl_scheduler.py", "        while True:\n            # Get the action chosen by the agent", "        while not self._stopped:\n            # Get the action chosen by the agent"),
    ("C10", "outcome-on-bootstrap", "black_it/schedulers/rl/rl_scheduler.py", "            self._env._curr_best_loss = best_new_loss  # noqa: SLF001\n            return", "            self._env._curr_best_loss = best_new_loss  # noqa: SLF001\n            self._out_queue.put((self._best_param, self._best_loss))\n            return"),
    ("C10", "reference-updated-by-scheduler", "black_it/schedulers/rl/rl_scheduler.py", "        self._out_queue.put((self._best_param, self._best_loss))\n\n    def end_session", "        self._env._curr_best_loss = self._best_loss  # noqa: SLF001\n        self._out_queue.put((self._best_param, self._best_loss))\n\n    def end_session"),
    ("C10", "no-join", "black_it/schedulers/rl/rl_scheduler.py", "        cast(threading.Thread, self._agent_thread).join()\n", "        pass\n"),
    ("C01", "halton-keep-cursor", "black_it/samplers/halton.py", "        super()._set_random_state(random_state)\n        self._reset_sequence_index()", "        super()._set_random_state(random_state)"),
    ("C01", "rseq-keep-offset", "black_it/samplers/r_sequence.py", "        super()._set_random_state(random_state)\n        self._reset()", "        super()._set_random_state(random_state)\n        self._sequence_index = self.random_generator.integers(_MIN_SEQUENCE_START_INDEX, _MAX_SEQUENCE_START_INDEX)"),
    ("C01", "verbose-draw", "black_it/calibrator.py", "                if self.verbose:\n                    min_dist_new_points", "                if self.verbose:\n                    self._get_random_seed()\n                    min_dist_new_points"),
    ("C01", "seed-in-worker", "black_it/calibrator.py", "            delayed(self.model)(param, self.N, self._get_random_seed())\n", "            delayed(lambda p: self.model(p, self.N, self._get_random_seed()))(param)\n"),
    ("C01", "reseed-only-unseeded", "black_it/schedulers/base.py", "        for sampler in self.samplers:\n            sampler.random_state = self._get_random_seed()", "        for sampler in self.samplers:\n            seed = self._get_random_seed()\n            if sampler.random_state is None:\n                sampler.random_state = seed"),
    ("C01", "unseeded-pool", "black_it/samplers/surrogate.py", "            random_state=self._get_random_seed(),\n        ).sample_batch(", "            random_state=None,\n        ).sample_batch("),
    ("C01", "folder-draw", "black_it/calibrator.py", "                if self.saving_folder is not None:\n                    self.create_checkpoint(self.saving_folder)", "                if self.saving_folder is not None:\n                    self.create_checkpoint(self.saving_folder)\n                    self.scheduler.samplers[0].random_generator.random()"),
    ("C05", "batch-index-not-restored", "black_it/calibrator.py", "        calibrator.current_batch_index = current_batch_index\n", ""),
    ("C05", "rng-state-not-restored", "black_it/calibrator.py", "        calibrator.random_generator.bit_generator.state = random_generator_state\n", "        pass\n"),
    ("C05", "reseed-every-call", "black_it/calibrator.py", "        if self.current_batch_index == 0:\n            # we only set the samplers' random state at the start of a calibration\n            self._set_samplers_seeds()", "        if self.current_batch_index == 0 or self.current_batch_index == 2:\n            self._set_samplers_seeds()"),
    ("C05", "cors-batch-id-not-pickled", "black_it/samplers/cors.py", "    @property\n    def rho0(self) -> float:", "    def __getstate__(self) -> dict:\n        state = self.__dict__.copy()\n        state[\"_batch_id\"] = 0\n        return state\n\n    @property\n    def rho0(self) -> float:"),
    ("C05", "pso-getstate-drops-velocity", "black_it/samplers/particle_swarm.py", "    @property\n    def is_set_up(self) -> bool:", "    def __getstate__(self) -> dict:\n        state = self.__dict__.copy()\n        state[\"_curr_particle_velocities\"] = None if state[\"_curr_particle_velocities\"] is None else state[\"_curr_particle_velocities\"] * 0\n        return state\n\n    def __deepcopy__(self, memo):  # noqa: ANN001, ANN204\n        import copy\n\n        new = type(self).__new__(type(self))\n        new.__dict__.update({k: copy.deepcopy(v, memo) for k, v in self.__getstate__().items()})\n        return new\n\n    @property\n    def is_set_up(self) -> bool:"),
    ("C05", "session-reset-halton", "black_it/schedulers/base.py", "    def start_session(self) -> None:\n        \"\"\"Set up the scheduler for a new session.\n\n        The default is a no-op.\n        \"\"\"\n", "    def start_session(self) -> None:\n        \"\"\"Set up the scheduler for a new session.\"\"\"\n        for s in self.samplers:\n            if hasattr(s, \"_reset_sequence_index\") and getattr(self, \"_sessions\", 0):\n                s._reset_sequence_index()\n        self._sessions = getattr(self, \"_sessions\", 0) + 1\n"),
    ("C15", "no-tolerance", "black_it/search_space.py", "parameters_bounds[1][i] + 0.0000001,", "parameters_bounds[1][i],"),
]


def sh(cmd, **kw):
    return subprocess.run(cmd, shell=True, capture_output=True, text=True, **kw)


def main():
    args = [a for a in sys.argv[1:] if not a.startswith("--")]
    tier = "quick"
    if "--tier" in sys.argv:
        tier = sys.argv[sys.argv.index("--tier") + 1]
        args = [a for a in args if a != tier]
    sel = [m for m in M if not args or m[0] in args or m[1] in args]
    assert sh("git -C /repo status --porcelain --untracked-files=no").stdout.strip() == "", "/repo not clean"
    res = []
    import shutil, tempfile
    evbak = tempfile.mkdtemp(prefix="verif-evbak-")
    shutil.copytree("/verif/evidence", evbak + "/evidence")
    for pid, name, file, old, new in sel:
        p = REPO / file
        src = p.read_text()
        if old not in src:
            res.append((pid, name, "PATTERN-NOT-FOUND"))
            continue
        try:
            p.write_text(src.replace(old, new, 1))
            r = sh(f"cd /verif && timeout 400 ./check {pid} --tier {tier}")
            v = [l for l in r.stdout.splitlines() if l.startswith("VIOLATION")]
            res.append((pid, name, f"exit={r.returncode} " + ("DETECTED" if r.returncode == 1 and v else "MISSED") + " " + (r.stdout.strip().splitlines()[-1][:160] if r.stdout.strip() else r.stderr[-200:])))
        finally:
            p.write_text(src)
        print(res[-1], flush=True)
    sh("git -C /repo checkout -- .")
    shutil.rmtree("/verif/evidence", ignore_errors=True)
    shutil.copytree(evbak + "/evidence", "/verif/evidence")
    shutil.rmtree(evbak, ignore_errors=True)
    shutil.rmtree("/verif/replays", ignore_errors=True)
    missed = [r for r in res if "DETECTED" not in r[2]]
    print(f"\n{len(res) - len(missed)}/{len(res)} detected")
    return 1 if missed else 0


if __name__ == "__main__":
    sys.exit(main())
