#!/usr/bin/env python3
"""Validate MANIFEST.json and evidence/*.json against the given schemas (run with python3-vt)."""
import json, sys, glob, jsonschema
ok = True
jsonschema.validate(json.load(open('/verif/MANIFEST.json')), json.load(open('/root/.vp/MANIFEST.schema.json')))
print('MANIFEST valid')
es = json.load(open('/root/.vp/EVIDENCE.schema.json'))
for f in sorted(glob.glob('/verif/evidence/*.json')):
    try:
        jsonschema.validate(json.load(open(f)), es); print('valid', f)
    except Exception as e:
        ok = False; print('INVALID', f, str(e)[:300])
sys.exit(0 if ok else 1)
