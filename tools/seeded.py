#!/usr/bin/env python3
"""Run checks against a seeded change.

  tools/seeded.py <name> [--apply] [--checks C01,C05] [--tier quick]

<name> is a directory under /verif/seeded/ (patch.diff, meta.json). Default mode analyses a scratch worktree given in
meta.json["worktree"] through VERIF_REPO (no change to /repo); --apply applies patch.diff to /repo with `git apply`, runs
the checks and restores /repo with `git checkout -- .` (the mode whose result is recorded in meta.json)."""
import json, shutil, subprocess, sys, tempfile, os
from pathlib import Path

ROOT = Path("/verif")

def sh(cmd, **kw):
    return subprocess.run(cmd, shell=True, capture_output=True, text=True, **kw)

def main():
    args = sys.argv[1:]
    name = args[0]
    d = ROOT / "seeded" / name
    meta = json.loads((d / "meta.json").read_text())
    apply_ = "--apply" in args
    tier = args[args.index("--tier") + 1] if "--tier" in args else "quick"
    checks = args[args.index("--checks") + 1].split(",") if "--checks" in args else [meta["property"]]
    evbak = tempfile.mkdtemp(prefix="verif-evbak-")
    shutil.copytree(ROOT / "evidence", evbak + "/evidence")
    env = dict(os.environ)
    made_copy = None
    try:
        if apply_:
            assert sh("git -C /repo status --porcelain --untracked-files=no").stdout.strip() == "", "/repo not clean"
            r = sh(f"git -C /repo apply {d / 'patch.diff'}")
            assert r.returncode == 0, r.stderr
        else:
            wt = meta.get("worktree")
            if not wt or not os.path.isdir(wt):
                # no scratch worktree (they are removed at the end of a session): build a scratch copy of black_it with the patch applied
                wt = tempfile.mkdtemp(prefix="verif-seedcopy-")
                made_copy = wt
                shutil.copytree("/repo/black_it", wt + "/black_it")
                r = sh(f"cd {wt} && patch -p1 -s < {d / 'patch.diff'}")
                assert r.returncode == 0, r.stdout + r.stderr
            env["VERIF_REPO"] = wt
        out = {}
        for c in checks:
            r = subprocess.run(f"cd /verif && timeout 900 ./check {c} --tier {tier}", shell=True, capture_output=True, text=True, env=env)
            viol = [l for l in r.stdout.splitlines() if l.startswith("VIOLATION")]
            lines = r.stdout.strip().splitlines()
            detail = ""
            for i, l in enumerate(lines):
                if l.startswith("VIOLATION") and i + 2 < len(lines):
                    detail = lines[i + 1].strip()[:200] + " | " + lines[i + 2].strip()[:300]
                    break
            out[c] = {"exit": r.returncode, "violations": len(viol), "detail": detail, "last": lines[-1][:200] if lines else r.stderr[-200:]}
            print(c, out[c], flush=True)
        return out
    finally:
        if apply_:
            sh("git -C /repo checkout -- .")
        if made_copy:
            shutil.rmtree(made_copy, ignore_errors=True)
        shutil.rmtree(ROOT / "evidence", ignore_errors=True)
        shutil.copytree(evbak + "/evidence", ROOT / "evidence")
        shutil.rmtree(evbak, ignore_errors=True)
        shutil.rmtree(ROOT / "replays", ignore_errors=True)

if __name__ == "__main__":
    main()
