#!/usr/bin/env python3
"""Regenerate MANIFEST.json from harness metadata (harness/Cxx.py: MANIFEST dict) + tools/not_applicable.json."""
import importlib, json, sys
from pathlib import Path
ROOT = Path(__file__).resolve().parent.parent
sys.path.insert(0, str(ROOT))
props = [json.loads(l)["id"] for l in (ROOT / "properties.jsonl").read_text().splitlines() if l.strip()]
na_file = ROOT / "tools" / "not_applicable.json"
na = json.loads(na_file.read_text()) if na_file.exists() else {}
checks, not_app = [], []
for pid in props:
    p = ROOT / "harness" / f"{pid}.py"
    meta = None
    if p.exists():
        src = p.read_text()
        if "MANIFEST = " in src:
            ns = {}
            # metadata only: evaluate the literal dict without importing the repo
            start = src.index("MANIFEST = ")
            import ast
            mod = ast.parse(src)
            for node in mod.body:
                if isinstance(node, ast.Assign) and getattr(node.targets[0], "id", "") == "MANIFEST":
                    meta = ast.literal_eval(node.value)
    if meta is None:
        not_app.append({"property_id": pid, "reason": na.get(pid, "check not built yet (solver-based harness pending); not claimed")})
        continue
    checks.append({
        "property_id": pid,
        "quick_cmd": f"./check {pid} --tier quick",
        "thorough_cmd": f"./check {pid} --tier thorough",
        "evidence_file": f"/verif/evidence/{pid}.json",
        "replay_cmd_template": f"./check {pid} --replay {{path}}",
        "engine": "symx",
        "level_claimed": {"category": meta["category"], "text": meta["text"], "design_ref": meta.get("design_ref", f"DESIGN.md §2 {pid}")},
        "level_note": meta["note"],
        "technique": meta.get("technique", "symbolic execution of the real Python functions (z3-backed scalars in numpy object arrays), SMT verdict per path within stated bounds, counterexample replay on unpatched code"),
    })
hooks_file = ROOT / "tools" / "hooks.json"
hooks = json.loads(hooks_file.read_text()) if hooks_file.exists() else {"source_commits": []}
man = {
    "version": 1,
    "setup_cmd": "./setup.sh",
    "hooks": {
        "guard": "BLACK_IT_VERIF",
        "enable": "no source hooks: all interception is done by rebinding module globals of /repo modules inside the harness process (BLACK_IT_VERIF=1 is exported by ./check for completeness)",
        "baseline_off_cmd": "cd /repo && /venv/bin/python -m pytest -ra -q -p no:cacheprovider --timeout=900 --continue-on-collection-errors",
        "source_commits": hooks.get("source_commits", []),
        "add_only": True,
    },
    "engines": [{"name": "symx", "path": "/verif/symx", "serves_properties": [c["property_id"] for c in checks],
                 "kind_free_text": "own symbolic executor for Python/numpy code: z3-backed scalar objects inside numpy object arrays, DFS path exploration by re-execution, SMT obligations per path, environment stubs (RNG, joblib, files, threads) with written contracts, concrete replay of every counterexample"}],
    "checks": checks,
    "not_applicable": not_app,
    "notes": "All checks are bounded: every claim is 'holds for all values on all explored paths within the bounds stated in the evidence file'. Exit 2 = inconclusive/harness error (never reported as success). Known findings: /verif/known_findings.json.",
}
(ROOT / "MANIFEST.json").write_text(json.dumps(man, indent=1) + "\n")
print("checks:", [c["property_id"] for c in checks], "not_applicable:", [n["property_id"] for n in not_app])
