#!/bin/bash
# Run the repo's pinned suite (guard off) and compare with BASELINE.json stable_pass. Output: /tmp/w/baseline.txt
mkdir -p /tmp/w
cd /repo && env -u BLACK_IT_VERIF /venv/bin/python -m pytest -ra -q -p no:cacheprovider --timeout=900 --continue-on-collection-errors --junitxml=/tmp/w/junit.xml > /tmp/w/pytest.log 2>&1
python3 - <<'PY'
import json, xml.etree.ElementTree as ET
base = json.load(open('/root/.vp/BASELINE.json'))
want = set(base['stable_pass'])
t = ET.parse('/tmp/w/junit.xml')
ok=set(); bad=set()
for tc in t.iter('testcase'):
    cn = tc.get('classname',''); n = tc.get('name','')
    # ids look like 'tests.test_x.Class::name' or 'tests.test_x::name'
    parts = cn.split('.')
    cands = {cn + '::' + n}
    failed = any(c.tag in ('failure','error','skipped') for c in tc)
    for c in cands:
        (bad if failed else ok).add(c)
miss = sorted(w for w in want if w not in ok)
print('stable_pass wanted', len(want), 'passing now', len(want)-len(miss)); print('MISSING:', miss)
PY
