#!/bin/bash
# intake.sh C15 : store round-4 seed, verify it, run the property's check against it (VERIF_REPO mode)
p=$1; sd=/verif/seeded/$p-agent2; wt=/tmp/seed/${p}b
mkdir -p $sd && cp $wt/patch.diff $wt/demo.py $wt/NOTES.md $sd/ 2>/dev/null
[ -f $sd/meta.json ] || cat > $sd/meta.json <<M
{
 "property": "$p",
 "worktree": "$wt",
 "origin": "independent sub-agent (second one for this property) given only the property text, a scratch worktree and a one-line hint of what NOT to repeat",
 "status": "unverified"
}
M
/verif/tools/verify_seed.sh ${p}b $p-agent2
cat /tmp/w/v3/${p}b.txt | cut -c1-250
echo "== check:"; cd /verif && python3 tools/seeded.py $p-agent2 ${2:+--checks $2} 2>&1 | cut -c1-600
