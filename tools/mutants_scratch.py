#!/usr/bin/env python3
"""Run mutants from tools/mutants.py against a scratch copy of black_it through VERIF_REPO (no change to /repo, so it can run
next to anything else that reads /repo).

  tools/mutants_scratch.py [Cxx | mutant-name] ...     (no argument: all; -x Cxx to exclude a property)

The scratch copy lives under a mktemp directory and is removed at exit; evidence/ is restored from git afterwards."""
import shutil, subprocess, sys, tempfile

src = open("/verif/tools/mutants.py").read()
ns = {}
start = src.index("M = [")
exec(src[start:src.index("\n]\n", start) + 3], ns)
args = sys.argv[1:]
excl = {args[i + 1] for i, a in enumerate(args) if a == "-x"}
names = {a for i, a in enumerate(args) if a != "-x" and (i == 0 or args[i - 1] != "-x")}
tmp = tempfile.mkdtemp(prefix="verif-mutc-")
try:
    shutil.copytree("/repo/black_it", tmp + "/black_it")
    missed = []
    for pid, name, path, old, new in ns["M"]:
        if pid in excl or (names and name not in names and pid not in names):
            continue
        shutil.copy("/repo/" + path, tmp + "/" + path)
        s = open(tmp + "/" + path).read()
        if old not in s:
            print(pid, name, "PATTERN NOT FOUND", flush=True)
            continue
        open(tmp + "/" + path, "w").write(s.replace(old, new, 1))
        r = subprocess.run(f"cd /verif && VERIF_REPO={tmp} timeout 1200 ./check {pid}", shell=True, capture_output=True, text=True)
        v = [l for l in r.stdout.splitlines() if l.startswith("VIOLATION")]
        print(pid, name, "exit", r.returncode, "violations", len(v), flush=True)
        if r.returncode != 1:
            missed.append((pid, name, r.returncode))
        shutil.copy("/repo/" + path, tmp + "/" + path)
    print("NOT DETECTED:", missed)
finally:
    shutil.rmtree(tmp, ignore_errors=True)
    subprocess.run("cd /verif && git checkout -q evidence && rm -rf replays", shell=True)
