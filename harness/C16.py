"""C16 — history-driven samplers use the history faithfully and never modify it."""
from __future__ import annotations

import itertools
import warnings
from fractions import Fraction

import numpy as np
import z3

from black_it.samplers.best_batch import BestBatchSampler
from black_it.samplers.cors import CORSSampler
from black_it.samplers.gaussian_process import GaussianProcessSampler
from black_it.samplers.halton import HaltonSampler
from black_it.samplers.particle_swarm import ParticleSwarmSampler
from black_it.samplers.r_sequence import RSequenceSampler
from black_it.samplers.random_forest import RandomForestSampler
from black_it.samplers.random_uniform import RandomUniformSampler
from black_it.samplers.surrogate import MLSurrogateSampler
from black_it.samplers.xgboost import XGBoostSampler
from black_it.search_space import SearchSpace
from harness.common import Case, f
from harness.samplers import Learner, index_rng, sampler_world
from symx.core import Sym, is_sym, lift
from symx.stubs import ScriptedGenerator, script_from, scripted_rng
from symx.core import reraise_if_harness  # noqa: E402

LEVEL = "other"
FUNCTIONS = [
    "black_it.samplers.surrogate:MLSurrogateSampler.sample_batch", "black_it.samplers.surrogate:MLSurrogateSampler.sample_candidates",
    "black_it.samplers.xgboost:XGBoostSampler._clip_losses", "black_it.samplers.xgboost:XGBoostSampler.fit",
    "black_it.samplers.random_forest:RandomForestSampler.fit", "black_it.samplers.random_forest:RandomForestSampler.prepare_data_for_classifier",
    "black_it.samplers.gaussian_process:GaussianProcessSampler.fit", "black_it.samplers.gaussian_process:GaussianProcessSampler.predict",
    "black_it.samplers.best_batch:BestBatchSampler.sample_batch",
    "black_it.samplers.particle_swarm:ParticleSwarmSampler.sample_batch", "black_it.samplers.particle_swarm:ParticleSwarmSampler._update_best",
    "black_it.samplers.particle_swarm:ParticleSwarmSampler._do_step", "black_it.samplers.cors:CORSSampler.sample_batch",
    "black_it.samplers.halton:HaltonSampler.sample_batch", "black_it.samplers.r_sequence:RSequenceSampler.sample_batch",
    "black_it.samplers.random_uniform:RandomUniformSampler.sample_batch", "black_it.samplers.base:BaseSampler.sample",
]
NUMBER_MODEL = "R exact; learners, optimiser, erfc uninterpreted; random draws uninterpreted terms of (seed, counter)"
EXPLANATION = (
    "Every built-in sampler's real sample() runs on a write-tracked history (object arrays with symbolic losses, including the float32 "
    "overflow regions): z3-explored paths must show zero writes and identical cells afterwards. A stub surrogate (fit records, predict "
    "returns free reals) is plugged into the real MLSurrogateSampler.sample_batch: fit received exactly the history and for every "
    "ordering of the predictions the returned rows are pool rows whose predictions are <= those of every row not returned. "
    "Best-batch: on every path (loss ordering x parent choice x shocked coordinates x sizes x signs) each proposal equals "
    "clip(parent +/- k*precision) on the shocked coordinates with 1 <= k <= range-1 for a parent among the batch_size lowest losses."
)
ASSUMPTIONS = [
    "sklearn/xgboost estimators, scipy minimize / betabinom / erfc replaced by contract stubs (deterministic functions of their inputs, results in their documented ranges)",
    "search space with grid-aligned bounds here (non-aligned bounds are C03's subject)",
    "numpy rejects object arrays as indices: integer index arrays drawn from the generator are concretised (every value explored)",
]
OUTSIDE = ["histories longer than 4 rows, pools larger than 4", "the numerical behaviour of the real learners"]
REQUIRED_LABELS = ["history_untouched", "fit_gets_history", "lowest_predictions_returned", "best_batch_descends_from_best"]

MAXF = float(np.finfo(np.float32).max)


def bounds(tier):
    return {"quick": "all nine samplers for the no-modification clause (history 2..3 rows, dims 1..2, losses symbolic incl. >= MAX_FLOAT32); stub surrogate pool 3..4, batch 1..2; best-batch dims 1..2, batch 1..2, history 2..3, perturbation range 2..4",
            "thorough": "history up to 4 rows, pool 5, best-batch dims 3 and batch 3"}[tier]


class Tracked(np.ndarray):
    """ndarray that records writes (views share the log)."""

    def __new__(cls, arr, log):
        base = np.asarray(arr)
        obj = base.view(cls)
        obj._log = log
        obj._root = base
        return obj

    def __array_finalize__(self, obj):
        self._log = getattr(obj, "_log", None)
        self._root = getattr(obj, "_root", None)

    def __setitem__(self, k, v):
        # only a write that lands in the memory of the history itself counts: fancy indexing / copies derived from it are fresh arrays
        if self._log is not None and self._root is not None and np.shares_memory(self, self._root):
            self._log.append(("setitem", repr(k)[:40]))
        return np.ndarray.__setitem__(self, k, v)


def _space(dims, n=5, lo=0.0, hi=1.0):
    return SearchSpace([[lo] * dims, [hi] * dims], [(hi - lo) / (n - 1)] * dims, verbose=False)


# the no-write clause runs on a search space that is NOT the unit cube: a rescaling written into the history must change values
LO, HI = 2.0, 10.0


def _history(ctx, rows, dims, n=5, sym_points=False, lo=0, hi=1):
    pts = np.empty((rows, dims), dtype=object)
    for r in range(rows):
        for d in range(dims):
            pts[r, d] = (lo + (hi - lo) * Fraction((2 * r + d + 1) % n, n - 1)) if not sym_points else ctx.int(f"hp{r}_{d}", 0, n - 1) / (n - 1)
    losses = np.empty(rows, dtype=object)
    for r in range(rows):
        losses[r] = ctx.real(f"hl{r}")
    return pts, losses


def _mk(kind, B, ctx=None):
    if kind == "halton":
        return HaltonSampler(B, random_state=1)
    if kind == "rseq":
        return RSequenceSampler(B, random_state=1)
    if kind == "uniform":
        return RandomUniformSampler(B, random_state=1, max_deduplication_passes=1)
    if kind == "bestbatch":
        return BestBatchSampler(B, random_state=1, max_deduplication_passes=0, perturbation_range=3)
    if kind == "pso":
        return ParticleSwarmSampler(B, random_state=1)
    if kind == "pso-global":
        return ParticleSwarmSampler(B, random_state=1, global_minimum_across_samplers=True)
    if kind == "cors":
        return CORSSampler(B, max_samples=20, random_state=1)
    if kind == "xgb":
        return XGBoostSampler(B, random_state=1, candidate_pool_size=3, max_deduplication_passes=0)
    if kind == "rf":
        return RandomForestSampler(B, random_state=1, candidate_pool_size=3, max_deduplication_passes=0, n_classes=3)
    if kind == "gp-mean":
        return GaussianProcessSampler(B, random_state=1, candidate_pool_size=3, max_deduplication_passes=0, acquisition="mean")
    if kind == "gp-ei":
        return GaussianProcessSampler(B, random_state=1, candidate_pool_size=2, max_deduplication_passes=0, acquisition="expected_improvement")
    raise KeyError(kind)


def case_untouched(kind, rows, dims, B):
    name = f"untouched-{kind}-r{rows}-d{dims}-B{B}"

    def body(ctx):
        # randomness is not the subject of this clause: the real numpy generator is used (concrete draws); symbolic: the losses
        with sampler_world(rng=None), warnings.catch_warnings():
            warnings.simplefilter("ignore")
            ctx.recip_mode = True
            ctx.mul_abstract = kind == "gp-ei"  # products as uninterpreted terms: over-approximates the feasible orderings (sound for 'no write on any path')
            space = _space(dims, lo=LO, hi=HI)
            pts, losses = _history(ctx, rows, dims, lo=int(LO), hi=int(HI))
            log = []
            tp, tl = Tracked(pts, log), Tracked(losses, log)
            snap_p, snap_l = pts.copy(), losses.copy()
            s = _mk(kind, B)
            ncalls = 2 if kind.startswith("pso") else 1
            for call in range(ncalls):
                try:
                    out = s.sample(space, tp, tl)
                except ValueError as e:
                    # a sampler refusing a history is not a modification of it (whether it may refuse is C03's subject)
                    ctx.note("sampler_raised_ValueError")
                    out = None
                    break
                ctx.prove(z3.BoolVal(out.shape == (B, dims)), "history_untouched", f"{kind}: returns batch_size x dims")
                if call + 1 < ncalls:
                    # the calibrator appends the batch and its (symbolic) losses, then lends the longer history
                    ctx.prove(z3.BoolVal(not log), "history_untouched", f"{kind}: writes into the history arrays: {log[:3]}")
                    pts = np.vstack((pts, np.asarray(out, dtype=object)))
                    losses = np.hstack((losses, [ctx.real(f"hl{rows + j}") for j in range(B)]))
                    tp, tl = Tracked(pts, log), Tracked(losses, log)
                    snap_p, snap_l = pts.copy(), losses.copy()
            ctx.prove(z3.BoolVal(not log), "history_untouched", f"{kind}: writes into the history arrays: {log[:3]}")
            same = all(a is b for a, b in zip(np.asarray(tp).ravel(), snap_p.ravel())) and all(a is b for a, b in zip(np.asarray(tl).ravel(), snap_l.ravel()))
            ctx.prove(z3.BoolVal(bool(same)), "history_untouched", f"{kind}: history cells identical afterwards")
            if kind in ("xgb", "rf", "gp-mean", "gp-ei") and out is not None:
                L = Learner.log[-1]
                X, y = L.fitted[2], L.fitted[3]
                okX = X.shape == pts.shape and all(lift(a).eq(lift(b)) for a, b in zip(X.ravel(), pts.ravel()))
                ctx.prove(z3.BoolVal(bool(okX)), "fit_gets_history", f"{kind}: learner trained on exactly the history points")
                if kind == "xgb":
                    # losses reach the learner unchanged except for the documented float32 clipping
                    conds = []
                    for a, b in zip(np.asarray(y, dtype=object).ravel(), losses):
                        conds.append(z3.If(lift(b) >= lift(MAXF), z3.And(lift(a) <= lift(MAXF), lift(a) > 0), z3.If(lift(b) <= lift(-MAXF), z3.And(lift(a) >= lift(-MAXF), lift(a) < 0), lift(a) == lift(b))))
                    ctx.prove(z3.And(*conds), "fit_gets_history", "xgb: training targets are the history losses (clipped into float32 range)")
                elif kind.startswith("gp"):
                    ctx.prove(z3.And(*[lift(a) == lift(b) for a, b in zip(np.asarray(y, dtype=object).ravel(), losses)]), "fit_gets_history", "gp: training targets are the history losses")
            ctx.sample({"case": name})

    def replay(cex):
        return replay_untouched(kind, rows, dims, B, cex.values)

    return Case(name, body, replay, time_budget=300, split=3 if (rows >= 3 and kind in ("cors", "rf", "gp-ei", "xgb", "bestbatch")) else 0, solver_timeout_ms=8000)


NONFINITE = [float("inf"), float("-inf"), float("nan")]


def case_untouched_nonfinite(kind, rows, dims, B):
    """No-write clause on histories holding a non-finite loss (a diverged simulation): which row and which of +inf / -inf / NaN are
    symbolic integers (concretised by forking); the other losses are concrete, so this dimension is enumerated, not symbolic.
    A sampler (or its estimator, by contract) may refuse such a history with ValueError - but must not have written into it."""
    name = f"untouched-nonfinite-{kind}-r{rows}-d{dims}-B{B}"

    def setup(row, which):
        pts = np.array([[LO + (HI - LO) * ((2 * r + d + 1) % 5) / 4 for d in range(dims)] for r in range(rows)], dtype=float)
        losses = np.array([1.5 - 0.25 * r for r in range(rows)], dtype=float)
        losses[row] = NONFINITE[which]
        return pts, losses

    def run(s, space, pts, losses):
        refused = None
        try:
            with warnings.catch_warnings():
                warnings.simplefilter("ignore")
                s.sample(space, pts, losses)
        except ValueError as e:
            refused = str(e)[:80]
        return refused

    def body(ctx):
        row, which = int(ctx.int("row", 0, rows - 1)), int(ctx.int("which", 0, 2))
        with sampler_world(rng=None):
            space = _space(dims, lo=LO, hi=HI)
            pts, losses = setup(row, which)
            log = []
            tp, tl = Tracked(pts, log), Tracked(losses, log)
            p0, l0 = pts.copy(), losses.copy()
            refused = run(_mk(kind, B), space, tp, tl)
            ctx.prove(z3.BoolVal(not log), "history_untouched", f"{kind}: writes into a history with loss[{row}]={NONFINITE[which]}: {log[:3]} (sampler {'refused: ' + refused if refused else 'returned'})")
            ctx.prove(z3.BoolVal(np.array_equal(pts, p0) and np.array_equal(losses, l0, equal_nan=True)), "history_untouched", f"{kind}: history cells identical afterwards")
            ctx.sample({"case": name, "row": row, "loss": repr(NONFINITE[which]), "refused": refused})

    def replay(cex):
        row, which = int(cex.values.get("row") or 0), int(cex.values.get("which") or 0)
        pts, losses = setup(row, which)
        p0, l0 = pts.copy(), losses.copy()
        try:
            refused = run(_real_sampler(kind, B), _space(dims, lo=LO, hi=HI), pts, losses)
        except Exception as e:  # noqa: BLE001
            reraise_if_harness(e)
            refused = f"{type(e).__name__}: {e}"[:80]
        bad = not (np.array_equal(pts, p0) and np.array_equal(losses, l0, equal_nan=True))
        return bad, f"{kind}: history losses {l0.tolist()} -> {losses.tolist()} (points changed={not np.array_equal(pts, p0)}; sampler {'refused: ' + str(refused) if refused else 'returned'})"

    return Case(name, body, replay, witness_paths=0)


def _real_sampler(kind, B):
    if kind == "xgb":
        return XGBoostSampler(B, random_state=1, candidate_pool_size=8, max_deduplication_passes=0, n_estimators=2)
    if kind == "rf":
        return RandomForestSampler(B, random_state=1, candidate_pool_size=8, max_deduplication_passes=0, n_classes=3, n_estimators=3)
    if kind == "gp-mean":
        return GaussianProcessSampler(B, random_state=1, candidate_pool_size=8, max_deduplication_passes=0, acquisition="mean", optimize_restarts=0)
    if kind == "gp-ei":
        return GaussianProcessSampler(B, random_state=1, candidate_pool_size=8, max_deduplication_passes=0, acquisition="expected_improvement", optimize_restarts=0)
    return _mk(kind, B)


def replay_untouched(kind, rows, dims, B, v):
    n = 5
    space = _space(dims, lo=LO, hi=HI)
    pts = np.array([[LO + (HI - LO) * ((2 * r + d + 1) % n) / (n - 1) for d in range(dims)] for r in range(rows)], dtype=float)
    losses = np.array([float(f(v.get(f"hl{r}", r + 1.0))) for r in range(rows)], dtype=float)
    p0, l0 = pts.copy(), losses.copy()
    s = _real_sampler(kind, B)
    try:
        with warnings.catch_warnings():
            warnings.simplefilter("ignore")
            for call in range(2 if kind.startswith("pso") else 1):
                out = s.sample(space, pts, losses)
                if kind.startswith("pso") and call == 0:
                    if not (np.array_equal(pts, p0) and np.array_equal(losses, l0)):
                        break
                    pts = np.vstack((pts, out))
                    losses = np.hstack((losses, [float(f(v.get(f"hl{rows + j}", 0.5 - j))) for j in range(B)]))
                    p0, l0 = pts.copy(), losses.copy()
    except ValueError as e:
        return not (np.array_equal(pts, p0) and np.array_equal(losses, l0)), f"{kind}.sample raised ValueError: {e} (history intact: {np.array_equal(losses, l0)})"
    except Exception as e:  # noqa: BLE001
        reraise_if_harness(e)
        return True, f"{kind}.sample raised {type(e).__name__}: {e}"
    bad = not (np.array_equal(pts, p0) and np.array_equal(losses, l0)) or out.shape != (B, dims)
    return bad, f"{kind}: history losses {l0.tolist()} -> {losses.tolist()}, points changed={not np.array_equal(pts, p0)}, output shape {out.shape}"


def case_surrogate(pool, B, rows, dims):
    name = f"surrogate-pool{pool}-B{B}-r{rows}-d{dims}"

    def body(ctx):
        with sampler_world(rng=index_rng):
            space = _space(dims)
            pts, losses = _history(ctx, rows, dims)
            rec = {}
            npred = [0]

            class Stub(MLSurrogateSampler):
                def sample_candidates(self, n, sp, p, l):
                    c = np.array([[Fraction((3 * k + 2 * d) % 5, 4) for d in range(dims)] for k in range(n)], dtype=object)
                    rec["cand"] = c.copy()
                    return c

                def fit(self, X, y):  # noqa: N803
                    rec["fit"] = (X, y)

                def predict(self, X):  # noqa: N803
                    rec["pred_in"] = X
                    rec["pred"] = np.array([ctx.real(f"pred{npred[0] + i}") for i in range(len(X))], dtype=object)
                    return rec["pred"]

            s = Stub(B, random_state=1, candidate_pool_size=pool, max_deduplication_passes=0)
            # two successive calls on the same sampler object; the second with a DIFFERENT history of the same size
            pts2 = pts.copy()[::-1].copy()
            losses2 = np.array([ctx.real(f"gl{r}") for r in range(rows)], dtype=object)
            for call, (hp, hl) in enumerate([(pts, losses), (pts2, losses2)]):
                rec.clear()
                npred[0] = call * pool
                out = s.sample(space, hp, hl)
                ctx.prove(z3.BoolVal(rec.get("fit") is not None and rec["fit"][0] is hp and rec["fit"][1] is hl), "fit_gets_history", f"call {call}: fit(existing_points, existing_losses) received the history of this call")
                if rec.get("fit") is None or "pred" not in rec:
                    continue
                ctx.prove(z3.BoolVal(rec["pred_in"] is not None and len(rec["pred"]) == pool and out.shape == (B, dims)), "lowest_predictions_returned", "predictions for the whole pool; batch_size rows returned")
                cand, pred = rec["cand"], rec["pred"]
                used = []
                ok = True
                for r in range(B):
                    m = [k for k in range(pool) if k not in used and all(bool(out[r, d] == cand[k, d]) for d in range(dims))]
                    if not m:
                        ok = False
                        break
                    best = None
                    for k in m:
                        if all(bool(pred[k] <= pred[q]) for q in range(pool) if q not in used + [k]):
                            best = k
                            break
                    used.append(best if best is not None else m[0])
                ctx.prove(z3.BoolVal(ok), "lowest_predictions_returned", "each returned row is (the snapped image of) a distinct pool row")
                if ok:
                    rest = [q for q in range(pool) if q not in used]
                    ctx.prove(z3.And(*[lift(pred[k]) <= lift(pred[q]) for k in used for q in rest]) if rest else z3.BoolVal(True), "lowest_predictions_returned",
                              f"call {call}: returned pool rows {used} have predictions <= all others")

    def replay(cex):
        v = cex.values
        space = _space(dims)
        n = 5
        pts = np.array([[((2 * r + d + 1) % n) / (n - 1) for d in range(dims)] for r in range(rows)], dtype=float)
        losses = np.array([float(f(v.get(f"hl{r}", r + 1.0))) for r in range(rows)], dtype=float)
        preds = [float(f(v.get(f"pred{i}", i))) for i in range(pool)]
        rec = {}

        class Stub(MLSurrogateSampler):
            def sample_candidates(self, n_, sp, p, l):
                c = np.array([[((3 * k + 2 * d) % 5) / 4 for d in range(dims)] for k in range(n_)], dtype=float)
                rec["cand"] = c.copy()
                return c

            def fit(self, X, y):  # noqa: N803
                rec["fit"] = (X, y)

            def predict(self, X):  # noqa: N803
                return np.array(preds[: len(X)])

        s = Stub(B, random_state=1, candidate_pool_size=pool, max_deduplication_passes=0)
        msgs = []
        pts2 = pts[::-1].copy()
        losses2 = np.array([float(f(v.get(f"gl{r}", 10.0 - r))) for r in range(rows)], dtype=float)
        for call, (hp, hl) in enumerate([(pts, losses), (pts2, losses2)]):
            rec.clear()
            cur_preds = [float(f(v.get(f"pred{call * pool + i}", i))) for i in range(pool)]
            preds[:] = cur_preds
            try:
                out = s.sample(space, hp, hl)
            except Exception as e:  # noqa: BLE001
                reraise_if_harness(e)
                return True, f"raised {type(e).__name__}: {e}"
            if rec.get("fit") is None or rec["fit"][0] is not hp or rec["fit"][1] is not hl:
                msgs.append(f"call {call}: fit did not receive the history arrays of this call")
                continue
            cand = rec["cand"]
            thr = sorted(preds)[B - 1]
            for r in range(B):
                ks = [k for k in range(pool) if np.allclose(cand[k], out[r])]
                if not ks or min(preds[k] for k in ks) > thr:
                    msgs.append(f"call {call}: returned row {out[r].tolist()} is not among the {B} lowest-prediction pool rows (pool={cand.tolist()}, predictions={preds})")
        return bool(msgs), "; ".join(msgs) or "ok"

    return Case(name, body, replay, time_budget=600, split=4 if pool >= 4 else 2)


def case_bestbatch(dims, B, rows, prange):
    name = f"bestbatch-d{dims}-B{B}-r{rows}-range{prange}"
    n = 9  # precision 1/8: exactly representable, so the float search space and the rational oracle agree

    def body(ctx):
        with sampler_world(rng=index_rng):
            space = SearchSpace([[0.0] * dims, [1.0] * dims], [1.0 / (n - 1)] * dims, verbose=False)
            pts = np.empty((rows, dims), dtype=object)
            for r in range(rows):
                for d in range(dims):
                    pts[r, d] = Fraction((3 * r + 2 * d + 1) % n, n - 1)
            losses = np.array([ctx.real(f"hl{r}") for r in range(rows)], dtype=object)
            s = BestBatchSampler(B, random_state=1, max_deduplication_passes=0, perturbation_range=prange)
            out = s.sample(space, pts, losses)
            ctx.prove(z3.BoolVal(out.shape == (B, dims)), "best_batch_descends_from_best", "shape")
            p = Fraction(1, n - 1)
            for r in range(B):
                alts = []
                for parent in range(rows):
                    # parent must be among the B lowest losses: at most B-1 rows are strictly better
                    better = z3.Sum([z3.If(lift(losses[q]) < lift(losses[parent]), 1, 0) for q in range(rows) if q != parent])
                    for shocked in itertools.product([False, True], repeat=dims):
                        if not any(shocked):
                            continue
                        coord = []
                        for d in range(dims):
                            base = pts[parent, d]
                            if not shocked[d]:
                                coord.append(lift(out[r, d]) == lift(base))
                            else:
                                opts = []
                                for k in range(1, prange):
                                    for sg in (-1, 1):
                                        val = min(max(base + sg * k * p, Fraction(0)), Fraction(1))
                                        opts.append(lift(out[r, d]) == lift(val))
                                coord.append(z3.Or(*opts))
                        alts.append(z3.And(better <= B - 1, *coord))
                ctx.prove(z3.Or(*alts), "best_batch_descends_from_best", f"row {r}: a best point displaced by 1..{prange - 1} steps on >= 1 coordinate, clipped")

    def replay(cex):
        v = cex.values
        space = SearchSpace([[0.0] * dims, [1.0] * dims], [1.0 / (n - 1)] * dims, verbose=False)
        pts = np.array([[((3 * r + 2 * d + 1) % n) / (n - 1) for d in range(dims)] for r in range(rows)], dtype=float)
        losses = np.array([float(f(v.get(f"hl{r}", r))) for r in range(rows)], dtype=float)
        import black_it.samplers.best_batch as sbest
        from harness.samplers import betabinom_stub
        from symx.npx import patched as _patched

        try:
            with scripted_rng(v), _patched(sbest, betabinom=betabinom_stub):
                s = BestBatchSampler(B, random_state=1, max_deduplication_passes=0, perturbation_range=prange)
                out = s.sample(space, pts, losses)
        except Exception as e:  # noqa: BLE001
            reraise_if_harness(e)
            return True, f"raised {type(e).__name__}: {e}"
        p = 1.0 / (n - 1)
        thr = sorted(losses)[B - 1]
        for r in range(B):
            ok = False
            for parent in range(rows):
                if losses[parent] > thr:
                    continue
                diffs = [(out[r, d] - pts[parent, d]) / p for d in range(dims)]
                good = True
                moved = 0
                for d, df in enumerate(diffs):
                    k = round(df)
                    if abs(df - k) > 1e-6:
                        good = False
                    elif k != 0:
                        moved += 1
                        clipped = out[r, d] in (0.0, 1.0)
                        if abs(k) > prange - 1 or (abs(k) < 1):
                            good = False
                    # a shocked coordinate may also come back to the parent's value only through clipping at a bound
                if good and (moved >= 1 or any(pts[parent, d] in (0.0, 1.0) for d in range(dims))):
                    ok = True
                    break
            if not ok:
                return True, f"proposal {out[r].tolist()} is not a best point (losses={losses.tolist()}, points={pts.tolist()}) displaced by 1..{prange - 1} steps"
        return False, "ok"

    return Case(name, body, replay, time_budget=400, split=4)


def cases(tier, seed):
    cs = []
    kinds = ["halton", "rseq", "uniform", "bestbatch", "pso", "pso-global", "cors", "xgb", "rf", "gp-mean", "gp-ei"]
    for k in kinds:
        rows = 2 if k in ("gp-ei", "rf", "cors") else 3
        cs.append(case_untouched(k, rows, 1 if k in ("cors", "gp-ei", "bestbatch") else 2, 1 if k in ("gp-ei", "cors", "rf") else 2))
    # histories with a non-finite loss (enumerated dimension; samplers whose handling of the losses the harness can execute concretely)
    for k in ("gp-mean", "gp-ei", "xgb", "bestbatch", "pso-global"):
        cs.append(case_untouched_nonfinite(k, 3, 2, 2))
    cs.append(case_surrogate(3, 1, 2, 1))
    cs.append(case_surrogate(3, 2, 2, 2))
    cs.append(case_bestbatch(1, 1, 2, 3))
    cs.append(case_bestbatch(2, 1, 3, 2))
    cs.append(case_bestbatch(1, 2, 3, 3))
    cs.append(case_bestbatch(2, 1, 2, 4))
    if tier == "thorough":
        for k in kinds:
            cs.append(case_untouched(k, 3 if k in ("gp-ei", "rf", "cors") else 4, 2, 2))
        cs.append(case_surrogate(4, 2, 3, 1))
        cs.append(case_bestbatch(3, 1, 3, 3))
        cs.append(case_bestbatch(2, 2, 2, 3))
        cs.append(case_bestbatch(1, 2, 3, 4))
    return cs


MANIFEST = {
    "category": "other",
    "text": "Symbolic execution of every built-in sampler's real sample() on a write-tracked history with symbolic losses (all loss orderings, float32-overflow regions included): no write and identical cells afterwards; the real MLSurrogateSampler.sample_batch with a stub surrogate returning free predictions: fit received the history and for every prediction ordering the returned rows are the batch_size lowest; BestBatchSampler: on every path each proposal is proved to be a best point displaced by 1..range-1 precision steps on >= 1 coordinate and clipped.",
    "note": "Learners/optimiser/betabinom/erfc are contract stubs (estimators refuse non-finite targets with ValueError); the non-finite-loss histories are an enumerated dimension (row x {+inf,-inf,NaN}) with concrete values; grid-aligned search space (bounds [2,10] for the no-write clause, unit cube elsewhere); history <= 3 rows (quick); integer index arrays from the generator are concretised (all values explored).",
}
