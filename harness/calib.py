"""Lifting the real Calibrator: module-global rebinding + stub model / loss / samplers / checkpoint recorder."""
from __future__ import annotations

import builtins
import contextlib
import copy
import threading

import numpy as np
import z3

import black_it.calibrator as cal
import black_it.samplers.base as sbase
import black_it.schedulers.base as schbase
import black_it.schedulers.rl.rl_scheduler as rls
import black_it.search_space as ss
import black_it.utils.base as ubase
import black_it.utils.seedable as seedable
from black_it.loss_functions.base import BaseLoss
from black_it.samplers.base import BaseSampler
from symx.core import Sym, any_sym, cur, lift
from symx.npx import NPX, np_with, patched, sym_float
from symx.stubs import SymParallel, sym_default_rng, sym_delayed


def _noprint(*a, **k):
    return None


class SaveRecorder:
    """FS stub for create_checkpoint: records a snapshot of what the calibrator asked to persist."""

    FIELDS = ["checkpoint_path", "parameters_bounds", "parameters_precision", "real_data", "ensemble_size", "N", "D",
              "convergence_precision", "verbose", "saving_file", "initial_random_seed", "random_generator_state", "model_name",
              "scheduler", "loss_function", "current_batch_index", "n_sampled_params", "n_jobs", "params_samp", "losses_samp",
              "series_samp", "batch_num_samp", "method_samp"]

    def __init__(self):
        self.saves = []

    def __call__(self, *args):
        snap = {}
        for k, v in zip(self.FIELDS, args):
            if isinstance(v, np.ndarray):
                v = v.copy()
            elif isinstance(v, dict):
                v = dict(v)
            snap[k] = v
        self.saves.append(snap)


class DaemonThread(threading.Thread):
    """Harness hygiene: agent threads never keep the checker process alive."""

    def __init__(self, *a, **k):
        k.setdefault("daemon", True)
        super().__init__(*a, **k)


class _ThreadingProxy:
    Thread = DaemonThread

    def __getattr__(self, name):
        return getattr(threading, name)


@contextlib.contextmanager
def world(*, argsort_identity=False, recorder=None, extra_modules=(), extra_names=None, rng=True):
    """Rebind the module globals the Calibrator uses (the source files are not edited)."""
    over = {}
    if argsort_identity:
        over["argsort"] = lambda a, **k: np.arange(len(a))
    npx = np_with(**over) if over else NPX
    names = dict(np=npx, Parallel=SymParallel, delayed=sym_delayed, print=_noprint)
    if recorder is not None:
        names["save_calibrator_state"] = recorder
    rng_patch = patched(seedable, default_rng=sym_default_rng) if rng else contextlib.nullcontext()
    with patched(cal, **names), rng_patch, patched(sbase, np=NPX, print=_noprint), \
            patched(ss, np=NPX, print=_noprint), patched(ubase, np=NPX), patched(rls, np=NPX, float=sym_float, threading=_ThreadingProxy()), \
            patched(*extra_modules, **(extra_names or {})):
        yield


def model_uf(P, N, D):
    """Uninterpreted user model: element (n,d) of model(theta, N, seed) is the term model_n_d(theta..., seed)."""
    R, I = z3.RealSort(), z3.IntSort()
    fs = {(n, d): z3.Function(f"model_{n}_{d}", *([R] * P), I, R) for n in range(N) for d in range(D)}

    def model(theta, n_periods, seed):
        th = [z3.ToReal(t) if t.sort().kind() == z3.Z3_INT_SORT else t for t in (lift(x) for x in theta)]
        out = np.empty((n_periods, D), dtype=object)
        for n in range(n_periods):
            for d in range(D):
                out[n, d] = Sym(fs[(min(n, N - 1), d)](*th, lift(seed)))
        return out

    model.__name__ = "model"
    model.calls = []
    return model


class FreeLoss:
    """User loss whose value on the i-th evaluation is the free symbolic Real L<i> (functional consistency by Ackermann
    constraints: equal input series => equal loss)."""

    def __init__(self, ctx, consistent=True):
        self.ctx = ctx
        self.calls = []  # (series, real, term)
        self.consistent = consistent

    def compute_loss(self, sim_data_ensemble, real_data):
        i = len(self.calls)
        L = self.ctx.real(f"L{i}")
        flat = [lift(x) for x in np.asarray(sim_data_ensemble, dtype=object).ravel()]
        if self.consistent:
            for (pf, _, pl) in self.calls:
                if len(pf) == len(flat):
                    self.ctx.solver.add(z3.Implies(z3.And(*[a == b for a, b in zip(pf, flat)]), pl.t == L.t))
        self.calls.append((flat, real_data, L))
        return L


class ScriptedSampler(BaseSampler):
    """A sampler whose proposals are free symbolic Reals (no deduplication: budget 0)."""

    def __init__(self, batch_size, ctx, tag="S"):
        super().__init__(batch_size, random_state=None, max_deduplication_passes=0)
        self.ctx = ctx
        self.tag = tag
        self.calls = 0
        self.seen = []

    def sample_batch(self, batch_size, search_space, existing_points, existing_losses):
        c = self.calls
        self.calls += 1
        self.seen.append((existing_points, existing_losses, len(existing_points)))
        out = np.empty((batch_size, search_space.dims), dtype=object)
        for r in range(batch_size):
            for d in range(search_space.dims):
                out[r, d] = self.ctx.real(f"{self.tag}_c{c}_r{r}_d{d}")
        return out


def make_sampler_class(name):
    return type(name, (ScriptedSampler,), {})
