"""Shared pieces for the checkpoint harnesses (C04, C05, C06): symbolic file system world and state builders."""
from __future__ import annotations

import contextlib
import io
import json as _json
import pickle as _pickle

import numpy as np
import z3

import black_it.calibrator as cal
import black_it.search_space as ss
import black_it.utils.json_pandas_checkpointing as jp
from black_it.loss_functions.minkowski import MinkowskiLoss
from black_it.loss_functions.msm import MethodOfMomentsLoss
from black_it.samplers.halton import HaltonSampler
from black_it.samplers.random_uniform import RandomUniformSampler
from black_it.samplers.r_sequence import RSequenceSampler
from symx.core import Sym, lift
from symx.memfs import H5Stub, JsonStub, MemFS, PandasStub, PickleStub, make_path_class
from symx.npx import NPX, patched
from symx.core import reraise_if_harness  # noqa: E402


def _noprint(*a, **k):
    return None


@contextlib.contextmanager
def fs_world(fs):
    """The real save/load/restore code running against the in-memory file system."""
    P = make_path_class(fs)
    with patched(jp, np=NPX, json=JsonStub(_json), pickle=PickleStub(), Path=P, h5py=H5Stub(fs), pd=PandasStub(fs)), \
            patched(cal, Path=P, print=_noprint, np=cal.np), patched(ss, print=_noprint, np=ss.np):
        yield


def model(theta, N, seed):  # noqa: N803
    rng = np.random.default_rng(seed)
    return np.full((N, 1), float(theta[0])) + rng.normal(size=(N, 1)) * 0.01


def model2d(theta, N, seed):  # noqa: N803
    return np.tile(np.asarray(theta, dtype=float), (N, 1))


def make_calibrator(kind="rr", folder=None, n_batches=2, P=1, E=1, conv=None, loss="mink"):
    """A real calibrator advanced by a few real batches (scheduler / samplers / generator in a non-initial state)."""
    from black_it.schedulers.rl.agents.epsilon_greedy import MABEpsilonGreedy
    from black_it.schedulers.rl.envs.mab import MABCalibrationEnv
    from black_it.schedulers.rl.rl_scheduler import RLScheduler

    samplers = [RandomUniformSampler(batch_size=2, random_state=5), HaltonSampler(batch_size=1, random_state=6), RSequenceSampler(batch_size=1, random_state=7)]
    kw = {}
    if kind == "rr":
        kw["samplers"] = samplers
    else:
        kw["scheduler"] = RLScheduler(samplers, MABEpsilonGreedy(3, 0.1, 0.1, random_state=1), MABCalibrationEnv(3), random_state=2)
    lf = MinkowskiLoss() if loss == "mink" else MethodOfMomentsLoss(covariance_mat="identity", moment_calculator=_mom, standardise_moments=True)
    with contextlib.redirect_stdout(io.StringIO()):
        c = cal.Calibrator(loss_function=lf, real_data=np.linspace(0, 1, 3 * P).reshape(3, P) if P > 1 else np.array([[0.25], [0.5], [0.125]]),
                           model=model if P == 1 else model2d, parameters_bounds=[[0.0] * P, [1.0] * P], parameters_precision=[0.125] * P,
                           ensemble_size=E, convergence_precision=conv, verbose=False, saving_folder=folder, random_state=11, n_jobs=1, **kw)
        if n_batches:
            c.calibrate(n_batches)
    return c


def _mom(s):
    s = np.asarray(s, dtype=float)
    return np.array([np.mean(s), np.std(s) + 1.0])


def symbolise_history(ctx, c, tag="h", rows=None):
    """Replace the numeric history by symbolic reals of the same shape (labels/counters stay concrete)."""
    r = len(c.losses_samp) if rows is None else rows
    P = c.params_samp.shape[1]
    E, N, D = c.series_samp.shape[1:]
    c.params_samp = ctx.reals(f"{tag}p", (r, P))
    c.losses_samp = ctx.reals(f"{tag}l", (r,))
    c.series_samp = ctx.reals(f"{tag}s", (r, E, N, D))
    c.batch_num_samp = np.asarray(c.batch_num_samp[:r]) if len(c.batch_num_samp) >= r else np.arange(r)
    c.method_samp = np.asarray(c.method_samp[:r]) if len(c.method_samp) >= r else np.zeros(r, dtype=int)
    c.n_sampled_params = r
    return c


def state_of(c):
    """The persisted / observable state as a dict of comparable pieces."""
    st = {
        "params_samp": np.asarray(c.params_samp, dtype=object), "losses_samp": np.asarray(c.losses_samp, dtype=object),
        "series_samp": np.asarray(c.series_samp, dtype=object), "batch_num_samp": np.asarray(c.batch_num_samp, dtype=object),
        "method_samp": np.asarray(c.method_samp, dtype=object),
        "current_batch_index": c.current_batch_index, "n_sampled_params": c.n_sampled_params, "N": c.N, "D": c.D, "ensemble_size": c.ensemble_size,
        "convergence_precision": c.convergence_precision, "verbose": c.verbose, "saving_folder": c.saving_folder, "random_state": c.random_state,
        "n_jobs": c.n_jobs, "bounds": np.asarray(c.param_grid.parameters_bounds, dtype=object), "precision": np.asarray(c.param_grid.parameters_precision, dtype=object),
        "real_data": np.asarray(c.real_data, dtype=object), "generator_state": _plain(c.random_generator.bit_generator.state),
        "scheduler_pickle": _sched_fingerprint(c.scheduler), "loss_pickle": _pickle.dumps(c.loss_function),
    }
    return st


def _plain(o):
    if isinstance(o, dict):
        return {k: _plain(v) for k, v in o.items()}
    if isinstance(o, (list, tuple)):
        return [_plain(v) for v in o]
    if isinstance(o, np.ndarray):
        return o.tolist()
    if isinstance(o, np.generic):
        return o.item()
    return o


def _sched_fingerprint(s):
    try:
        return _pickle.dumps(s)
    except Exception as e:  # noqa: BLE001  (an intentional probe of the library object with the real pickle: no reraise_if_harness here)
        return f"unpicklable: {type(e).__name__}: {e}"


def arrays_equal_term(a, b):
    a, b = np.asarray(a, dtype=object), np.asarray(b, dtype=object)
    if a.shape != b.shape:
        return z3.BoolVal(False), f"shape {b.shape} vs {a.shape}"
    import math

    cs = []
    for x, y in zip(a.ravel(), b.ravel()):
        xf = isinstance(x, (float, np.floating)) and not math.isfinite(float(x))
        yf = isinstance(y, (float, np.floating)) and not math.isfinite(float(y))
        if xf or yf:
            # NaN / +-inf are concrete special values: they must come back as the same special value
            same = xf and yf and ((math.isnan(float(x)) and math.isnan(float(y))) or float(x) == float(y))
            cs.append(z3.BoolVal(bool(same)))
        else:
            cs.append(lift(x) == lift(y))
    return (z3.And(*cs) if cs else z3.BoolVal(True)), ""


NUMERIC = ["params_samp", "losses_samp", "series_samp", "batch_num_samp", "method_samp", "bounds", "precision", "real_data"]
PLAIN = ["current_batch_index", "n_sampled_params", "N", "D", "ensemble_size", "convergence_precision", "verbose", "saving_folder", "random_state", "n_jobs",
         "generator_state", "scheduler_pickle", "loss_pickle"]


def compare_states(ctx, saved, restored, label, detail=""):
    """Obligations: every piece of `restored` equals `saved` (numeric pieces by z3, the rest by value and type)."""
    for k in NUMERIC:
        t, why = arrays_equal_term(saved[k], restored[k])
        ctx.prove(t, label, f"{detail}{k} {why}")
    bad = [k for k in PLAIN if not (restored[k] == saved[k] and type(restored[k]) is type(saved[k]))]
    ctx.prove(z3.BoolVal(not bad), label, f"{detail}differs in {bad}: " + "; ".join(f"{k}: {str(saved[k])[:60]!r} -> {str(restored[k])[:60]!r}" for k in bad[:3]))
