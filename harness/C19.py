"""C19 — the bandit agent and reward follow their published update rules (one inductive step from an arbitrary state)."""
from __future__ import annotations

from fractions import Fraction

import numpy as np
import z3

import black_it.schedulers.rl.agents.epsilon_greedy as eg
import black_it.schedulers.rl.envs.mab as mab
import black_it.utils.seedable as seedable
from harness.common import Case, f
from symx.core import Sym, lift
from symx.npx import patched
from symx.stubs import ScriptedGenerator, SymGenerator, script_from, sym_default_rng

LEVEL = "other"
FUNCTIONS = [
    "black_it.schedulers.rl.envs.mab:MABCalibrationEnv.get_reward",
    "black_it.schedulers.rl.agents.epsilon_greedy:MABEpsilonGreedy.__init__",
    "black_it.schedulers.rl.agents.epsilon_greedy:MABEpsilonGreedy.get_step_size",
    "black_it.schedulers.rl.agents.epsilon_greedy:MABEpsilonGreedy.learn",
    "black_it.schedulers.rl.agents.epsilon_greedy:MABEpsilonGreedy.policy",
]
NUMBER_MODEL = "R (exact reals/ints)"
EXPLANATION = (
    "One inductive step of the real agent/env methods from an arbitrary symbolic state (Q: free Reals, counts: free Ints >= 0, "
    "reference best loss > 0, alpha a free Real or the sentinel -1, eps in [0,1], reward free, random draws = uninterpreted terms of "
    "(seed, counter)). z3 proves the update equations, the frame conditions (other entries unchanged), greedy choice for eps=0, index "
    "validity and determinism (two agents with equal seed and equal state pick equal actions). A step from an arbitrary state covers "
    "reward/observation histories of any length."
)
ASSUMPTIONS = [
    "numpy Generator contract: random() in [0,1), choice(options,1) returns one element of options, draws are a function of (seed, draw counter)",
    "previous best loss > 0 (relative improvement of a positive loss); the <= 0 case is outside the claim",
    "np.argmax over the Q list is executed by the real numpy through the symbolic comparison operators",
]
OUTSIDE = ["more than 5 actions", "floating rounding of the update", "previous best loss <= 0"]
REQUIRED_LABELS = ["reward_rule", "reference_moves_iff_improved", "learn_update", "learn_frame", "policy_valid_index", "policy_greedy_eps0", "policy_deterministic"]


def bounds(tier):
    return {"quick": "n_actions 1..4, every action index, arbitrary symbolic Q/counts/alpha/eps/reward/losses",
            "thorough": "n_actions 1..8; plus 2..5 successive learn steps on the same action (count continuity)"}[tier]


def _patches():
    return patched(eg, seedable, default_rng=sym_default_rng)


def case_reward():
    def body(ctx):
        prev = ctx.real("prev")
        new = ctx.real("new")
        ctx.assume(prev > 0)
        env = mab.MABCalibrationEnv(3)
        env._curr_best_loss = prev
        r = env.get_reward(None, new)
        exp = z3.If(new.t < prev.t, (prev.t - new.t) / prev.t, z3.RealVal(0))
        ctx.prove(lift(r) == exp, "reward_rule")
        ctx.prove(lift(env._curr_best_loss) == z3.If(new.t < prev.t, new.t, prev.t), "reference_moves_iff_improved")
        ctx.prove(z3.And(lift(r) >= 0, z3.Implies(new.t >= 0, lift(r) <= 1)), "reward_rule", "0 <= reward (<= 1 for non-negative losses)")
        ctx.sample({"prev": str(prev.t), "new": str(new.t), "reward": str(lift(r))})
        # unset reference must be an error, not a silent value
        env2 = mab.MABCalibrationEnv(3)
        try:
            env2.get_reward(None, new)
            ctx.fail("reward_rule", "get_reward with no reference did not raise")
        except ValueError:
            pass

    def replay(cex):
        prev, new = float(f(cex.values["prev"])), float(f(cex.values["new"]))
        env = mab.MABCalibrationEnv(3)
        env._curr_best_loss = prev
        r = env.get_reward(None, new)
        exp = (Fraction(prev) - Fraction(new)) / Fraction(prev) if new < prev else 0
        expref = new if new < prev else prev
        bad = abs(Fraction(float(r)) - exp) > Fraction(1, 10**12) or env._curr_best_loss != expref
        return bad, f"prev={prev} new={new}: reward={r} expected={float(exp)}; reference={env._curr_best_loss} expected={expref}"

    return Case("reward", body, replay)


def _mk_agent(ctx, n, sym_seed=None):
    alpha = ctx.real("alpha")
    eps = ctx.real("eps", 0, 1)
    agent = eg.MABEpsilonGreedy(n, alpha, eps, initial_values=0.0, random_state=sym_seed)
    Q = [ctx.real(f"Q{i}") for i in range(n)]
    C = [ctx.int(f"cnt{i}", 0) for i in range(n)]
    agent.Q = list(Q)
    agent.actions_count = list(C)
    return agent, alpha, eps, Q, C


def case_learn(n, a, steps=1):
    def body(ctx):
        with _patches():
            agent, alpha, eps, Q, C = _mk_agent(ctx, n, ctx.int("seed", 0))
            rewards = [ctx.real(f"r{s}") for s in range(steps)]
            expQ = Q[a].t
            cnt = C[a].t
            for s in range(steps):
                agent.learn(0, a, rewards[s], 0)
                cnt = cnt + 1
                step = z3.If(alpha.t == -1, 1 / z3.ToReal(cnt), alpha.t)
                expQ = expQ + step * (rewards[s].t - expQ)
            ctx.prove(lift(agent.Q[a]) == expQ, "learn_update", f"n={n} action={a} steps={steps}")
            ctx.prove(lift(agent.actions_count[a]) == C[a].t + steps, "learn_update", "visit count")
            frame = [lift(agent.Q[i]) == Q[i].t for i in range(n) if i != a] + [lift(agent.actions_count[i]) == C[i].t for i in range(n) if i != a]
            frame.append(z3.BoolVal(len(agent.Q) == n and len(agent.actions_count) == n))
            ctx.prove(z3.And(*frame), "learn_frame", f"n={n} action={a}")

    def replay(cex):
        v = cex.values
        alpha = float(f(v["alpha"]))
        agent = eg.MABEpsilonGreedy(n, alpha, float(f(v["eps"])), random_state=0)
        Q = [float(f(v[f"Q{i}"])) for i in range(n)]
        C = [int(v[f"cnt{i}"]) for i in range(n)]
        agent.Q, agent.actions_count = list(Q), list(C)
        exp = Fraction(Q[a])
        cnt = C[a]
        try:
            for s in range(steps):
                r = float(f(v[f"r{s}"]))
                agent.learn(0, a, r, 0)
                cnt += 1
                step = Fraction(1, cnt) if alpha == -1 else Fraction(alpha)
                exp = exp + step * (Fraction(r) - exp)
        except Exception as e:  # noqa: BLE001
            return True, f"learn raised {type(e).__name__}: {e}"
        tol = Fraction(1, 10**9) * (1 + abs(exp))
        bad = abs(Fraction(float(agent.Q[a])) - exp) > tol or agent.actions_count[a] != C[a] + steps
        bad = bad or any(agent.Q[i] != Q[i] or agent.actions_count[i] != C[i] for i in range(n) if i != a)
        return bad, f"Q={Q} cnt={C} alpha={alpha} action={a}: Q'={agent.Q} cnt'={agent.actions_count} expected Q'[a]={float(exp)}"

    return Case(f"learn-n{n}-a{a}-s{steps}", body, replay)


def case_policy(n):
    def body(ctx):
        with _patches():
            seed = ctx.int("seed", 0)
            agent, alpha, eps, Q, C = _mk_agent(ctx, n, seed)
            twin = eg.MABEpsilonGreedy(n, alpha, eps, random_state=seed)
            twin.Q = list(Q)
            twin.actions_count = list(C)
            # the twin makes the same symbolic choices first (no fork after the first run: same conditions)
            act = agent.policy(0)
            act2 = twin.policy(0)
            ctx.prove(z3.BoolVal(isinstance(act, int) and 0 <= act < n), "policy_valid_index", f"n={n} action={act}")
            ctx.prove(z3.BoolVal(act == act2), "policy_deterministic", "same seed + same estimates => same action")
            ctx.prove(z3.Implies(eps.t == 0, z3.And(*[Q[act].t >= Q[i].t for i in range(n)])), "policy_greedy_eps0", f"n={n}")
            # state untouched by policy()
            ctx.prove(z3.And(*[lift(agent.Q[i]) == Q[i].t for i in range(n)]), "learn_frame", "policy leaves Q unchanged")

    def replay(cex):
        v = cex.values
        Q = [float(f(v[f"Q{i}"])) for i in range(n)]
        eps = float(f(v["eps"]))
        seed = int(v.get("seed") or 0) % (2**32)
        outs = []
        for gid in (0, 1):
            ag = eg.MABEpsilonGreedy(n, 0.1, eps, random_state=seed)
            ag.Q = list(Q)
            # the real policy() driven by the model's draws (each inside the documented range of the call)
            ag._BaseSeedable__random_generator = ScriptedGenerator(script_from(v, gid), seed)
            try:
                outs.append(ag.policy(0))
            except Exception as e:  # noqa: BLE001
                return True, f"policy raised {type(e).__name__}: {e}"
        a = outs[0]
        bad = not (isinstance(a, int) and 0 <= a < n) or outs[0] != outs[1] or (eps == 0 and Q[a] < max(Q))
        return bad, f"Q={Q} eps={eps} seed={seed}: actions={outs}"

    return Case(f"policy-n{n}", body, replay)


def case_init(n):
    def body(ctx):
        with _patches():
            iv = ctx.real("init")
            ag = eg.MABEpsilonGreedy(n, ctx.real("alpha"), ctx.real("eps", 0, 1), initial_values=iv, random_state=ctx.int("seed", 0))
            ctx.prove(z3.And(*[lift(q) == iv.t for q in ag.Q], *[lift(c) == 0 for c in ag.actions_count], z3.BoolVal(len(ag.Q) == n)), "learn_frame", "initial state")

    def replay(cex):
        iv = float(f(cex.values["init"]))
        ag = eg.MABEpsilonGreedy(n, 0.1, 0.1, initial_values=iv, random_state=0)
        return (ag.Q != [iv] * n or ag.actions_count != [0] * n), f"Q={ag.Q} counts={ag.actions_count}"

    return Case(f"init-n{n}", body, replay)


def cases(tier, seed):
    N = 4 if tier == "quick" else 8
    cs = [case_reward()]
    for n in range(1, N + 1):
        cs.append(case_init(n))
        cs.append(case_policy(n))
        for a in range(n):
            cs.append(case_learn(n, a))
    if tier == "thorough":
        for n in (1, 3, 6):
            cs.append(case_learn(n, 0, steps=2))
            cs.append(case_learn(n, n - 1, steps=3))
            cs.append(case_learn(n, n // 2, steps=5))
    else:
        cs.append(case_learn(2, 1, steps=2))
    return cs


MANIFEST = {
    "category": "other",
    "text": "Inductive one-step symbolic verification of the real MABCalibrationEnv.get_reward and MABEpsilonGreedy.learn/policy from an arbitrary symbolic state: z3 proves the reward formula and reference-loss movement, the incremental update with step 1/count or alpha, the frame conditions, greedy choice for eps=0, index validity and seed-determinism. An arbitrary pre-state stands for every reward history.",
    "note": "Exact real arithmetic (no float rounding); RNG replaced by the documented Generator contract (uninterpreted draws of (seed,counter)); previous best loss assumed > 0; n_actions bounded (4 quick / 6 thorough).",
}
