"""C19 — the bandit agent and reward follow their published update rules (one inductive step from an arbitrary state)."""
from __future__ import annotations

from fractions import Fraction

import numpy as np
import z3

import black_it.schedulers.rl.agents.epsilon_greedy as eg
import black_it.schedulers.rl.envs.mab as mab
import black_it.utils.seedable as seedable
from harness.common import Case, f, inject
from symx.core import Sym, lift
from symx.npx import patched
from symx.stubs import ScriptedGenerator, SymGenerator, script_from, sym_default_rng
from symx.core import reraise_if_harness  # noqa: E402

LEVEL = "other"
FUNCTIONS = [
    "black_it.schedulers.rl.envs.mab:MABCalibrationEnv.get_reward",
    "black_it.schedulers.rl.agents.epsilon_greedy:MABEpsilonGreedy.__init__",
    "black_it.schedulers.rl.agents.epsilon_greedy:MABEpsilonGreedy.get_step_size",
    "black_it.schedulers.rl.agents.epsilon_greedy:MABEpsilonGreedy.learn",
    "black_it.schedulers.rl.agents.epsilon_greedy:MABEpsilonGreedy.policy",
]
NUMBER_MODEL = "R (exact reals/ints)"
EXPLANATION = (
    "One inductive step of the real agent/env methods from an arbitrary symbolic state (Q: free Reals, counts: free Ints >= 0, "
    "reference best loss > 0, alpha a free Real or the sentinel -1, eps in [0,1], reward free, random draws = uninterpreted terms of "
    "(seed, counter)). z3 proves the update equations and the frame conditions (other entries unchanged) for that step. policy() - greedy choice "
    "for eps=0, index validity, determinism (equal seed and equal observation history => equal action) - is checked on states REACHED through the public "
    "API: constructor, then every action sequence of length <= 3 with symbolic rewards, alpha and eps; no state is injected there, "
    "so an implementation may keep derived state. A step from an arbitrary state covers "
    "reward/observation histories of any length. Base case: the state built by the real constructor and by reset() for initial values "
    "given as Python int / float / numpy scalars (enumerated element types) followed by 1-3 symbolic updates."
)
ASSUMPTIONS = [
    "numpy Generator contract: random() in [0,1), choice(options,1) returns one element of options, draws are a function of (seed, draw counter)",
    "previous best loss > 0 (relative improvement of a positive loss); the <= 0 case is outside the claim",
    "np.argmax over the Q list is executed by the real numpy through the symbolic comparison operators",
]
OUTSIDE = ["more than 5 actions", "floating rounding of the update", "previous best loss <= 0"]
REQUIRED_LABELS = ["reward_rule", "reference_moves_iff_improved", "learn_update", "learn_frame", "policy_valid_index", "policy_greedy_eps0", "policy_deterministic"]


def bounds(tier):
    return {"quick": "n_actions 1..4, every action index, arbitrary symbolic Q/counts/alpha/eps/reward/losses for the learn/reward step; policy() after every action sequence of length 1..3 (symbolic rewards, alpha, eps) from the constructed state",
            "thorough": "n_actions 1..8; plus 2..5 successive learn steps on the same action (count continuity); policy() after every action sequence of length <= 3 with up to 4 actions (longer products of the symbolic step size leave the solver without an answer)"}[tier]


def _patches():
    return patched(eg, seedable, default_rng=sym_default_rng)


def _seeded_env(prev, lifted):
    """An environment whose reference loss is `prev`, reached through the PUBLIC route: the first update() of an RL scheduler
    hands the best loss of the bootstrap batch to the environment (no private attribute is written by the harness)."""
    import black_it.schedulers.rl.rl_scheduler as rls
    from black_it.samplers.halton import HaltonSampler
    from symx.npx import NPX, sym_float

    env = mab.MABCalibrationEnv(3)
    agent = eg.MABEpsilonGreedy(3, 0.5, 0.0, random_state=0)
    sched = rls.RLScheduler([HaltonSampler(batch_size=1, random_state=0)], agent, env, random_state=0)
    if lifted:
        with patched(rls, np=NPX, float=sym_float):
            sched.update(0, np.array([[0.5]]), [prev], None)
    else:
        sched.update(0, np.array([[0.5]]), [prev], None)
    return env


def case_reward():
    """The reference loss is observed through behaviour: a second get_reward() with a symbolic probe value must pay relative to
    the reference the rule prescribes after the first one."""

    def body(ctx):
        prev = ctx.real("prev")
        new = ctx.real("new")
        probe = ctx.real("probe")
        ctx.assume(prev > 0)
        env = _seeded_env(prev, True)
        r = env.get_reward(None, new)
        exp = z3.If(new.t < prev.t, (prev.t - new.t) / prev.t, z3.RealVal(0))
        ctx.prove(lift(r) == exp, "reward_rule")
        ctx.prove(z3.And(lift(r) >= 0, z3.Implies(new.t >= 0, lift(r) <= 1)), "reward_rule", "0 <= reward (<= 1 for non-negative losses)")
        ref = z3.If(new.t < prev.t, new.t, prev.t)
        ctx.assume(new > 0)  # the moved reference must be positive for the next relative improvement to be defined
        r2 = env.get_reward(None, probe)
        ctx.prove(lift(r2) == z3.If(probe.t < ref, (ref - probe.t) / ref, z3.RealVal(0)), "reference_moves_iff_improved",
                  "the next reward is paid relative to min(previous reference, new loss)")
        ctx.sample({"prev": str(prev.t), "new": str(new.t), "reward": str(lift(r))})
        # unset reference must be an error, not a silent value
        env2 = mab.MABCalibrationEnv(3)
        try:
            env2.get_reward(None, new)
            ctx.fail("reward_rule", "get_reward with no reference did not raise")
        except ValueError:
            pass

    def replay(cex):
        v = cex.values
        prev, new = float(f(v.get("prev") if v.get("prev") is not None else 1.0)), float(f(v.get("new") if v.get("new") is not None else 0.5))
        probes = [float(f(v["probe"]))] if v.get("probe") is not None else []
        for probe in probes + [new * 0.5, (new + prev) / 2.0, prev * 0.75, prev * 2.0]:
            env = _seeded_env(prev, False)
            r = env.get_reward(None, new)
            exp = (Fraction(prev) - Fraction(new)) / Fraction(prev) if new < prev else Fraction(0)
            expref = new if new < prev else prev
            bad = abs(Fraction(float(r)) - exp) > Fraction(1, 10**12)
            info = f"reference {prev}, new loss {new}: reward={r} expected={float(exp)}"
            if not bad and expref > 0:
                r2 = env.get_reward(None, probe)
                exp2 = (Fraction(expref) - Fraction(probe)) / Fraction(expref) if probe < expref else Fraction(0)
                bad = abs(Fraction(float(r2)) - exp2) > Fraction(1, 10**12)
                info += f"; then loss {probe}: reward={r2} expected={float(exp2)} (reference should be {expref})"
            if bad:
                return True, info
        return False, info

    return Case("reward", body, replay)


def _mk_agent(ctx, n, sym_seed=None):
    alpha = ctx.real("alpha")
    eps = ctx.real("eps", 0, 1)
    agent = eg.MABEpsilonGreedy(n, alpha, eps, initial_values=0.0, random_state=sym_seed)
    Q = [ctx.real(f"Q{i}") for i in range(n)]
    C = [ctx.int(f"cnt{i}", 0) for i in range(n)]
    inject(agent, "Q", list(Q))
    inject(agent, "actions_count", list(C))
    return agent, alpha, eps, Q, C


def case_learn(n, a, steps=1):
    def body(ctx):
        with _patches():
            agent, alpha, eps, Q, C = _mk_agent(ctx, n, ctx.int("seed", 0))
            rewards = [ctx.real(f"r{s}") for s in range(steps)]
            expQ = Q[a].t
            cnt = C[a].t
            for s in range(steps):
                agent.learn(0, a, rewards[s], 0)
                cnt = cnt + 1
                step = z3.If(alpha.t == -1, 1 / z3.ToReal(cnt), alpha.t)
                expQ = expQ + step * (rewards[s].t - expQ)
            ctx.prove(lift(agent.Q[a]) == expQ, "learn_update", f"n={n} action={a} steps={steps}")
            ctx.prove(lift(agent.actions_count[a]) == C[a].t + steps, "learn_update", "visit count")
            frame = [lift(agent.Q[i]) == Q[i].t for i in range(n) if i != a] + [lift(agent.actions_count[i]) == C[i].t for i in range(n) if i != a]
            frame.append(z3.BoolVal(len(agent.Q) == n and len(agent.actions_count) == n))
            ctx.prove(z3.And(*frame), "learn_frame", f"n={n} action={a}")

    def replay(cex):
        v = cex.values
        alpha = float(f(v["alpha"]))
        agent = eg.MABEpsilonGreedy(n, alpha, float(f(v["eps"])), random_state=0)
        Q = [float(f(v[f"Q{i}"])) for i in range(n)]
        C = [int(v[f"cnt{i}"]) for i in range(n)]
        agent.Q, agent.actions_count = list(Q), list(C)
        exp = Fraction(Q[a])
        cnt = C[a]
        try:
            for s in range(steps):
                r = float(f(v[f"r{s}"]))
                agent.learn(0, a, r, 0)
                cnt += 1
                step = Fraction(1, cnt) if alpha == -1 else Fraction(alpha)
                exp = exp + step * (Fraction(r) - exp)
        except Exception as e:  # noqa: BLE001
            reraise_if_harness(e)
            return True, f"learn raised {type(e).__name__}: {e}"
        tol = Fraction(1, 10**9) * (1 + abs(exp))
        bad = abs(Fraction(float(agent.Q[a])) - exp) > tol or agent.actions_count[a] != C[a] + steps
        bad = bad or any(agent.Q[i] != Q[i] or agent.actions_count[i] != C[i] for i in range(n) if i != a)
        return bad, f"Q={Q} cnt={C} alpha={alpha} action={a}: Q'={agent.Q} cnt'={agent.actions_count} expected Q'[a]={float(exp)}"

    return Case(f"learn-n{n}-a{a}-s{steps}", body, replay)


def case_policy(n):
    def body(ctx):
        with _patches():
            seed = ctx.int("seed", 0)
            agent, alpha, eps, Q, C = _mk_agent(ctx, n, seed)
            twin = eg.MABEpsilonGreedy(n, alpha, eps, random_state=seed)
            twin.Q = list(Q)
            twin.actions_count = list(C)
            # the twin makes the same symbolic choices first (no fork after the first run: same conditions)
            act = agent.policy(0)
            act2 = twin.policy(0)
            ctx.prove(z3.BoolVal(isinstance(act, int) and 0 <= act < n), "policy_valid_index", f"n={n} action={act}")
            ctx.prove(z3.BoolVal(act == act2), "policy_deterministic", "same seed + same estimates => same action")
            ctx.prove(z3.Implies(eps.t == 0, z3.And(*[Q[act].t >= Q[i].t for i in range(n)])), "policy_greedy_eps0", f"n={n}")
            # state untouched by policy()
            ctx.prove(z3.And(*[lift(agent.Q[i]) == Q[i].t for i in range(n)]), "learn_frame", "policy leaves Q unchanged")

    def replay(cex):
        v = cex.values
        Q = [float(f(v[f"Q{i}"])) for i in range(n)]
        eps = float(f(v["eps"]))
        seed = int(v.get("seed") or 0) % (2**32)
        outs = []
        for gid in (0, 1):
            ag = eg.MABEpsilonGreedy(n, 0.1, eps, random_state=seed)
            ag.Q = list(Q)
            # the real policy() driven by the model's draws (each inside the documented range of the call)
            ag._BaseSeedable__random_generator = ScriptedGenerator(script_from(v, gid), seed)
            try:
                outs.append(ag.policy(0))
            except Exception as e:  # noqa: BLE001
                reraise_if_harness(e)
                return True, f"policy raised {type(e).__name__}: {e}"
        a = outs[0]
        bad = not (isinstance(a, int) and 0 <= a < n) or outs[0] != outs[1] or (eps == 0 and Q[a] < max(Q))
        return bad, f"Q={Q} eps={eps} seed={seed}: actions={outs}"

    return Case(f"policy-n{n}", body, replay)


def case_policy_history(n, k, iv):
    """policy() on states REACHED through the public API: constructor (initial value iv), then k learn() calls with symbolic
    actions (concretised by forking: n^k sequences) and symbolic rewards; no attribute is written by the harness, so an
    implementation is free to keep derived state (caches) as long as it keeps it right."""
    name = f"policy-after-{k}-steps-n{n}-init{iv}"

    def body(ctx):
        with _patches():
            seed = ctx.int("seed", 0)
            alpha = ctx.real("alpha")
            eps = ctx.real("eps", 0, 1)
            agent = eg.MABEpsilonGreedy(n, alpha, eps, initial_values=iv, random_state=seed)
            twin = eg.MABEpsilonGreedy(n, alpha, eps, initial_values=iv, random_state=seed)
            for s in range(k):
                a = int(ctx.int(f"act{s}", 0, n - 1))
                r = ctx.real(f"r{s}", 0, 1)
                agent.learn(0, a, r, 0)
                twin.learn(0, a, r, 0)
            Q = [lift(q) for q in agent.Q]
            act = agent.policy(0)
            act2 = twin.policy(0)
            ctx.prove(z3.BoolVal(isinstance(act, int) and 0 <= act < n), "policy_valid_index", f"{name}: action={act}")
            ctx.prove(z3.BoolVal(act == act2), "policy_deterministic", "same seed + same observation history => same action")
            ctx.prove(z3.Implies(eps.t == 0, z3.And(*[Q[act] >= Q[i] for i in range(n)])), "policy_greedy_eps0", f"{name}: chosen action {act}")
            ctx.prove(z3.And(*[lift(agent.Q[i]) == Q[i] for i in range(n)]), "learn_frame", "policy leaves the estimates unchanged")

    def replay(cex):
        v = cex.values
        acts = [int(v.get(f"act{s}") or 0) for s in range(k)]
        alpha = float(f(v.get("alpha") if v.get("alpha") is not None else 0.5))
        for al, rs in ((alpha, [float(f(v.get(f"r{s}") if v.get(f"r{s}") is not None else 0.5)) for s in range(k)]), (0.5, [0.0] * k), (-1, [0.0] * k), (0.5, [0.9 - 0.4 * s for s in range(k)])):
            try:
                ag = eg.MABEpsilonGreedy(n, al, 0.0, initial_values=iv, random_state=0)
                for a, r in zip(acts, rs):
                    ag.learn(0, a, max(0.0, r), 0)
                act = ag.policy(0)
                q = [float(x) for x in ag.Q]
            except Exception as e:  # noqa: BLE001
                reraise_if_harness(e)
                return True, f"raised {type(e).__name__}: {e}"
            if not (isinstance(act, int) and 0 <= act < n) or q[act] < max(q):
                return True, f"initial_values={iv} alpha={al} eps=0 after learn{list(zip(acts, rs))}: policy chose action {act} with estimate {q[act] if 0 <= act < n else None}, estimates {q}"
        return False, f"initial_values={iv} actions {acts}: greedy choice maximal on the instances tried"

    return Case(name, body, replay)


def case_init(n):
    def body(ctx):
        with _patches():
            iv = ctx.real("init")
            ag = eg.MABEpsilonGreedy(n, ctx.real("alpha"), ctx.real("eps", 0, 1), initial_values=iv, random_state=ctx.int("seed", 0))
            ctx.prove(z3.And(*[lift(q) == iv.t for q in ag.Q], *[lift(c) == 0 for c in ag.actions_count], z3.BoolVal(len(ag.Q) == n)), "learn_frame", "initial state")

    def replay(cex):
        iv = float(f(cex.values["init"]))
        ag = eg.MABEpsilonGreedy(n, 0.1, 0.1, initial_values=iv, random_state=0)
        q, cnt = [float(x) for x in ag.Q], [int(x) for x in ag.actions_count]  # any container type is fine
        return (q != [iv] * n or cnt != [0] * n), f"Q={q} counts={cnt}"

    return Case(f"init-n{n}", body, replay)


INIT_VALUES = [("int 0", 0), ("int 1", 1), ("float 0.0", 0.0), ("float 0.05", 0.05), ("np.int64 1", np.int64(1)), ("np.float32 0.5", np.float32(0.5)), ("int -2", -2)]


def case_learn_from_constructor(n, a, iv_name, iv, steps, after_reset=False):
    """The state the REAL constructor (or reset()) builds - whatever container and element type it chooses for the value the user
    passed - must follow the update rule too: initial value given as a Python int / float / numpy scalar (enumerated), rewards
    and alpha symbolic."""
    name = f"ctor-learn-n{n}-a{a}-{iv_name.replace(' ', '_')}-s{steps}" + ("-reset" if after_reset else "")

    def body(ctx):
        with _patches():
            alpha = ctx.real("alpha")
            agent = eg.MABEpsilonGreedy(n, alpha, ctx.real("eps", 0, 1), initial_values=iv, random_state=ctx.int("seed", 0))
            if after_reset:
                agent.reset()
            q0 = Fraction(0) if after_reset else Fraction(float(iv))
            rewards = [ctx.real(f"r{s}", 0, 1) for s in range(steps)]
            expQ = lift(q0)
            for s in range(steps):
                agent.learn(0, a, rewards[s], 0)
                # the sample-average step is the binary64 quotient 1/count the code computes (1/3 is not exact), taken as the rational it is
                step = z3.If(alpha.t == -1, lift(1 / (s + 1)), alpha.t)
                expQ = expQ + step * (rewards[s].t - expQ)
            ctx.prove(lift(agent.Q[a]) == expQ, "learn_update", f"{name}: estimate after {steps} update(s) from the constructed state")
            ctx.prove(z3.And(*[lift(agent.Q[i]) == lift(q0) for i in range(n) if i != a], z3.BoolVal(len(agent.Q) == n)), "learn_frame", name)
            ctx.prove(z3.BoolVal(int(agent.actions_count[a]) == steps), "learn_update", "visit count")

    def replay(cex):
        v = cex.values
        alpha = float(f(v.get("alpha") if v.get("alpha") is not None else 0.5))
        rs = [float(f(v.get(f"r{s}") if v.get(f"r{s}") is not None else 0.5)) for s in range(steps)]
        # also a generic instance of the same path (the model may sit on a boundary such as reward 0)
        for al, rr in ((alpha, rs), (alpha, [0.3 + 0.1 * s for s in range(steps)]), (0.5, [0.3 + 0.1 * s for s in range(steps)]), (-1, [0.3 + 0.1 * s for s in range(steps)])):
            bad, info = replay_ctor_learn(n, a, iv, steps, after_reset, al, rr)
            if bad:
                break
        return bad, info

    return Case(name, body, replay)


def replay_ctor_learn(n, a, iv, steps, after_reset, alpha, rs):
    try:
        ag = eg.MABEpsilonGreedy(n, alpha, 0.0, initial_values=iv, random_state=0)
        if after_reset:
            ag.reset()
        exp = Fraction(0) if after_reset else Fraction(float(iv))
        q0 = exp
        for s, r in enumerate(rs):
            ag.learn(0, a, r, 0)
            step = Fraction(1, s + 1) if alpha == -1 else Fraction(alpha)
            exp = exp + step * (Fraction(r) - exp)
        got = [float(x) for x in ag.Q]
    except Exception as e:  # noqa: BLE001
        reraise_if_harness(e)
        return True, f"raised {type(e).__name__}: {e}"
    tol = Fraction(1, 10**6) * (1 + abs(exp))  # float32 initial values keep their own precision
    bad = abs(Fraction(got[a]) - exp) > tol or any(abs(Fraction(got[i]) - q0) > tol for i in range(n) if i != a)
    return bad, f"initial_values={iv!r} ({type(iv).__name__}) alpha={alpha} rewards={rs} action={a}{' after reset()' if after_reset else ''}: estimates {got}, update rule gives {float(exp)} for action {a}"


def cases(tier, seed):
    N = 4 if tier == "quick" else 8
    cs = [case_reward()]
    for n in range(1, N + 1):
        cs.append(case_init(n))
        # (case_policy(n): policy() from an INJECTED arbitrary estimate vector is no longer part of the verdict - an implementation
        #  keeping correct derived state would be reported wrongly; policy() is checked on reachable states below)
        for a in range(n):
            cs.append(case_learn(n, a))
    if tier == "thorough":
        for n in (1, 3, 6):
            cs.append(case_learn(n, 0, steps=2))
            cs.append(case_learn(n, n - 1, steps=3))
            cs.append(case_learn(n, n // 2, steps=5))
    else:
        cs.append(case_learn(2, 1, steps=2))
    # policy() on states reached through the public API only (no injected state)
    for n_, k_, iv_ in ([(2, 1, 0.05), (3, 2, 0.0), (2, 3, 0.0), (3, 1, 0.05)] if tier == "quick" else [(2, 1, 0.05), (3, 2, 0.0), (2, 3, 0.0), (3, 3, 0.05), (4, 2, 0.0), (4, 3, 0.0), (3, 1, 0.05)]):
        cs.append(case_policy_history(n_, k_, iv_))
    # base case of the induction: the state the real constructor / reset() builds, for each element type of the initial value
    for iv_name, iv in (INIT_VALUES if tier == "thorough" else INIT_VALUES[:6]):
        cs.append(case_learn_from_constructor(3, 1, iv_name, iv, 2))
    cs.append(case_learn_from_constructor(2, 0, "int 1", 1, 2, after_reset=True))
    cs.append(case_learn_from_constructor(2, 1, "float 0.05", 0.05, 1, after_reset=True))
    if tier == "thorough":
        for iv_name, iv in INIT_VALUES:
            cs.append(case_learn_from_constructor(4, 3, iv_name, iv, 3))
            cs.append(case_learn_from_constructor(2, 0, iv_name, iv, 2, after_reset=True))
    return cs


MANIFEST = {
    "category": "other",
    "text": "Inductive one-step symbolic verification of the real MABCalibrationEnv.get_reward and MABEpsilonGreedy.learn/policy from an arbitrary symbolic state: z3 proves the reward formula and reference-loss movement, the incremental update with step 1/count or alpha and the frame conditions (an arbitrary pre-state stands for every reward history); greedy choice for eps=0, index validity and seed-determinism of policy() are proved on the states reached by every action sequence of bounded length with symbolic rewards from the really constructed agent (int / float / numpy initial values).",
    "note": "Exact real arithmetic (no float rounding); RNG replaced by the documented Generator contract (uninterpreted draws of (seed,counter)); previous best loss assumed > 0; n_actions bounded (4 quick / 6 thorough).",
}
