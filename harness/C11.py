"""C11 — a failing batch leaves the calibrator consistent and reusable."""
from __future__ import annotations

import shutil
import tempfile
import threading

import numpy as np
import z3

import black_it.calibrator as cal
import black_it.schedulers.rl.rl_scheduler as rls
from black_it.loss_functions.base import BaseLoss
from black_it.samplers.base import BaseSampler
from black_it.samplers.halton import HaltonSampler
from black_it.schedulers.rl.agents.base import Agent
from black_it.schedulers.rl.envs.base import CalibrationEnv
from harness.calib import FreeLoss, SaveRecorder, ScriptedSampler, make_sampler_class, model_uf, world
from harness.common import Case, all_eq, f
from symx.core import lift
from symx.core import reraise_if_harness  # noqa: E402
from harness.rlintro import agent_threads, rl_queues, session_open  # noqa: E402

LEVEL = "model_checking"
FUNCTIONS = [
    "black_it.calibrator:Calibrator.calibrate",
    "black_it.calibrator:Calibrator.simulate_model",
    "black_it.schedulers.base:BaseScheduler.session",
    "black_it.schedulers.rl.rl_scheduler:RLScheduler.start_session",
    "black_it.schedulers.rl.rl_scheduler:RLScheduler.end_session",
    "black_it.schedulers.rl.rl_scheduler:RLScheduler._train",
    "black_it.samplers.base:BaseSampler.sample",
]
NUMBER_MODEL = "R exact; fault index a symbolic Int over invocation counts"
EXPLANATION = (
    "The real calibrate() is executed with a fault injected at a symbolic invocation index k of the model, the loss or the sampler "
    "(the explorer forks on k == i at every invocation, so every index is a path), losses and proposals free reals, a fault-free twin "
    "run in the same solver context. z3 proves: the injected exception object propagates, completed batches = the reference function "
    "of k, history = the twin's prefix term by term, arrays aligned, session torn down (no live agent thread, flag reset) and a "
    "further calibrate(1) appends exactly one batch."
)
ASSUMPTIONS = [
    "joblib contract stub: a task exception propagates to the caller (true for n_jobs=1 and for loky, which re-raises)",
    "RL cases use a scripted agent and an environment whose reward is the constant 0 (no symbolic branching inside the agent thread; the reward rule is C19, the exchange C10)",
    "agent thread liveness is observed 0.5 s after the exception (real threads)",
]
OUTSIDE = ["faults inside checkpoint writing (C06)", "BaseException (KeyboardInterrupt) faults", "more than 3 (quick) / 6 (thorough) batches"]
REQUIRED_LABELS = ["exception_propagates", "history_is_prefix", "aligned", "no_thread_left", "reusable"]


class Injected(ValueError):
    pass


def bounds(tier):
    return {"quick": "fault kind in {model, loss, sampler}; symbolic fault index over all invocations; batches 2..3, batch size 1..2, ensemble 1..2; round-robin (2 samplers) and RL scheduler; folder set/unset",
            "thorough": "same with up to 6 batches"}[tier]


class ScriptAgent(Agent):
    def __init__(self, n):
        super().__init__(random_state=0)
        self.n = n
        self.t = 0
        self.learned = []

    def policy(self, state):
        a = self.t % self.n
        self.t += 1
        return a

    def learn(self, state, action, reward, next_state):
        self.learned.append((action, reward))


class ZeroRewardEnv(CalibrationEnv):
    def reset_state(self):
        return 0

    def get_next_observation(self):
        return 0

    def get_reward(self, best_param, best_loss):
        return 0.0


def _teardown(sched):
    """Harness hygiene: never leave a blocked agent thread behind in the checker process."""
    # release a possibly blocked agent thread: end marker on the outcome queue (whatever the attributes are called)
    live = [t for t in threading.enumerate() if t is not threading.main_thread() and t.is_alive() and not t.name.startswith("verif-")]
    if live:
        try:
            if "_stopped" in vars(sched):
                sched._stopped = True
            rl_queues(sched)[1].put(None)
        except BaseException:  # noqa: BLE001, S110
            pass
        for t in live:
            t.join(2)


def case(kind, sched_kind, nb, B, E, folder):
    name = f"{kind}-{sched_kind}-n{nb}-B{B}-E{E}-{'dir' if folder else 'nodir'}"
    total = {"model": nb * B * E, "loss": nb * B, "sampler": nb}[kind]
    per_batch = {"model": B * E, "loss": B, "sampler": 1}[kind]

    def build(ctx, k, tag):
        """k: symbolic fault index or None (fault-free twin)."""
        state = {"count": 0, "exc": None}

        def tick():
            i = state["count"]
            state["count"] += 1
            if k is not None and bool(k == i):
                state["exc"] = Injected(f"fault at {kind} invocation {i}")
                raise state["exc"]

        base_model = model_uf(1, 2, 1)

        def model(theta, N, seed):
            if kind == "model":
                tick()
            return base_model(theta, N, seed)

        model.__name__ = "model"
        loss = FreeLoss(ctx, consistent=True)
        orig_loss = loss.compute_loss

        def compute_loss(sim, real):
            if kind == "loss":
                tick()
            return orig_loss(sim, real)

        loss.compute_loss = compute_loss

        class FS(ScriptedSampler):
            def sample_batch(self, *a, **kw):
                if kind == "sampler":
                    tick()
                return ScriptedSampler.sample_batch(self, *a, **kw)

        class NeedsHistory(FS):
            """Like the best-batch sampler: refuses an empty history. In a correct run it is never asked first."""

            def sample_batch(self, batch_size, search_space, existing_points, existing_losses):
                if len(existing_points) == 0:
                    raise ValueError("this sampler needs at least one evaluated point (asked out of turn on an empty history)")
                return FS.sample_batch(self, batch_size, search_space, existing_points, existing_losses)

        s1 = type("SampA", (FS,), {})(B, ctx, tag="A")
        s2 = type("SampB", (NeedsHistory,), {})(B, ctx, tag="B")
        if sched_kind == "rr":
            kw = dict(samplers=[s1, s2])
        else:
            # the scheduler adds its own (real) Halton bootstrap sampler with batch size 1
            kw = dict(scheduler=rls.RLScheduler([s1, s2], ScriptAgent(2), ZeroRewardEnv(3), random_state=0))
        rec = SaveRecorder()
        c = cal.Calibrator(loss_function=loss, real_data=np.zeros((2, 1)), model=model, parameters_bounds=[[0.0], [1.0]],
                           parameters_precision=[0.25], ensemble_size=E, verbose=False,
                           saving_folder="/nonexistent/verif-c11" if folder else None, random_state=5, n_jobs=1, **kw)
        state["cum"] = []
        return c, state, rec

    def body(ctx):
        rec = SaveRecorder()
        with world(argsort_identity=True, recorder=rec, rng=False):
            twin, tst, _ = build(ctx, None, "T")
            cum, rows_at = [], []
            _upd = twin.scheduler.update

            def upd(*a, **kw):
                cum.append(tst["count"])
                rows_at.append(twin.n_sampled_params)
                return _upd(*a, **kw)

            twin.scheduler.update = upd
            twin.calibrate(nb)
            _teardown(twin.scheduler)
            nL = len(twin.loss_function.calls)
            k = ctx.int("k", 0, cum[-1] - 1)
            c, st, _ = build(ctx, k, "F")
            # same loss variables as the twin for the same evaluation index (functional consistency links them anyway)
            raised = None
            threads_before = list(threading.enumerate())
            try:
                c.calibrate(nb)
            except Injected as e:
                raised = e
            ctx.prove(z3.BoolVal(raised is not None and raised is st["exc"]), "exception_propagates", f"calibrate raised {type(raised).__name__ if raised else None}")
            done = c.current_batch_index
            ctx.prove(z3.Sum([z3.If(k.t >= cb, 1, 0) for cb in cum]) == done, "history_is_prefix", f"{done} batches completed (twin invocation counts per batch {cum})")
            rows = rows_at[done - 1] if 0 < done <= nb else 0
            ctx.prove(z3.BoolVal(len(c.params_samp) == rows and len(c.losses_samp) == rows and len(c.series_samp) == rows
                                 and len(c.batch_num_samp) == rows and len(c.method_samp) == rows and c.n_sampled_params == rows),
                      "aligned", f"rows={rows} arrays={[len(c.params_samp), len(c.losses_samp), len(c.series_samp), len(c.batch_num_samp), len(c.method_samp)]} counter={c.n_sampled_params}")
            # history == prefix of the fault-free twin (terms; losses linked by functional consistency of the loss stub)
            if rows:
                ctx.prove(z3.And(all_eq(c.series_samp, twin.series_samp[:rows]), all_eq(c.losses_samp, twin.losses_samp[:rows]),
                                 all_eq(c.batch_num_samp, twin.batch_num_samp[:rows]), all_eq(c.method_samp, twin.method_samp[:rows])),
                          "history_is_prefix", "series/losses/labels equal the twin's prefix")
            else:
                ctx.prove(z3.BoolVal(True), "history_is_prefix", "empty prefix")
            if sched_kind == "rl":
                th = next(iter(agent_threads(threads_before)), None)
                if th is not None:
                    th.join(0.5)
                alive = th is not None and th.is_alive()
                ctx.prove(z3.BoolVal(not alive and session_open(c.scheduler) is not True), "no_thread_left", f"agent thread alive={alive} session still open={session_open(c.scheduler)}")
            else:
                ctx.prove(z3.BoolVal(True), "no_thread_left", "round-robin starts no thread")
            # reuse: a further calibrate(2) must return (watchdog: a hang is a violation, not a harness stall) and add two batches
            ok, why = True, ""
            box = {}

            def again():
                try:
                    before_ = c.current_batch_index
                    c.calibrate(2)
                    box["ok"] = c.current_batch_index == before_ + 2 and len(c.losses_samp) > rows and len(c.losses_samp) == c.n_sampled_params
                    box["why"] = f"batches {before_}->{c.current_batch_index}, rows {len(c.losses_samp)}"
                except BaseException as e:  # noqa: BLE001
                    reraise_if_harness(e)
                    box["ok"], box["why"] = False, f"next calibrate raised {type(e).__name__}: {e}"

            if sched_kind == "rl":
                th2 = threading.Thread(target=again, daemon=True)
                th2.start()
                th2.join(6.0)
                if th2.is_alive():
                    box["ok"], box["why"] = False, "the next calibrate(2) on the same object never returned (6 s watchdog)"
                    # the stuck daemon thread stays parked on its queue for the rest of this process: it must not be woken
                    # (it would run symbolic code concurrently with the next path)
                    ctx.prove(z3.BoolVal(False), "reusable", box["why"])
                    return
            else:
                again()
            ok, why = box.get("ok", False), box.get("why", "")
            _teardown(c.scheduler)
            ctx.prove(z3.BoolVal(ok), "reusable", why)
            ctx.sample({"case": name, "fault_index": str(k.t), "completed": done})

    def replay(cex):
        return replay_concrete(kind, sched_kind, nb, B, E, folder, int(cex.values.get("k") or 0))

    return Case(name, body, replay)


class _RLoss(BaseLoss):
    hook = None

    def compute_loss_1d(self, sim, real):
        if _RLoss.hook:
            _RLoss.hook()
        return float(np.mean(np.abs(sim.mean(axis=0) - real)))


class _RSampler(BaseSampler):
    hook = None

    def sample_batch(self, batch_size, search_space, existing_points, existing_losses):
        if _RSampler.hook:
            _RSampler.hook()
        k = len(existing_points)
        return np.array([[0.25 * ((k + r) % 5)] for r in range(batch_size)])


class _RSamplerB(_RSampler):
    """second in line: refuses an empty history (as the best-batch sampler does)"""

    def sample_batch(self, batch_size, search_space, existing_points, existing_losses):
        if len(existing_points) == 0:
            raise ValueError("this sampler needs at least one evaluated point (asked out of turn on an empty history)")
        return _RSampler.sample_batch(self, batch_size, search_space, existing_points, existing_losses)




def replay_concrete(kind, sched_kind, nb, B, E, folder, k):
    """Real calibrator, real threads, real files."""
    from black_it.schedulers.rl.agents.epsilon_greedy import MABEpsilonGreedy
    from black_it.schedulers.rl.envs.mab import MABCalibrationEnv

    def run(fault, use_folder=True):
        cnt = {"n": 0, "exc": None}

        def tick():
            i = cnt["n"]
            cnt["n"] += 1
            if fault is not None and i == fault:
                cnt["exc"] = Injected(f"fault at {kind} invocation {i}")
                raise cnt["exc"]

        def model(theta, N, seed):
            if kind == "model":
                tick()
            return np.full((N, 1), float(theta[0]) + (seed % 7) * 1e-3)

        _RLoss.hook = tick if kind == "loss" else None
        _RSampler.hook = tick if kind == "sampler" else None
        sa, sb = _RSampler(B, max_deduplication_passes=0), _RSamplerB(B, max_deduplication_passes=0)
        if sched_kind == "rr":
            kw = dict(samplers=[sa, sb])
        else:
            kw = dict(scheduler=rls.RLScheduler([sa, sb], ScriptAgent(2), MABCalibrationEnv(3), random_state=0))
        tmp = tempfile.mkdtemp(prefix="verif-c11-") if (folder and sched_kind == "rr" and use_folder) else None
        c = cal.Calibrator(loss_function=_RLoss(), real_data=np.zeros((2, 1)), model=model, parameters_bounds=[[0.0], [1.0]],
                           parameters_precision=[0.25], ensemble_size=E, verbose=False, saving_folder=tmp, random_state=3, n_jobs=1, **kw)
        return c, cnt, tmp

    msgs = []
    bad = False
    twin, tcnt, tmp0 = run(None, use_folder=False)
    cum, rows_at = [], []
    _upd = twin.scheduler.update

    def upd(*a, **kw):
        cum.append(tcnt["n"])
        rows_at.append(twin.n_sampled_params)
        return _upd(*a, **kw)

    twin.scheduler.update = upd
    try:
        twin.calibrate(nb)
    finally:
        _teardown(twin.scheduler)
        if tmp0:
            shutil.rmtree(tmp0, ignore_errors=True)
    c, cnt, tmp = run(k)
    try:
        raised = None
        threads_before = list(threading.enumerate())
        try:
            c.calibrate(nb)
        except Injected as e:
            raised = e
        except Exception as e:  # noqa: BLE001
            reraise_if_harness(e)
            raised = e
        if raised is None or raised is not cnt["exc"]:
            bad = True
            msgs.append(f"calibrate raised {raised!r} instead of the injected exception")
        done = sum(1 for cb in cum if k >= cb)
        rows = rows_at[done - 1] if done else 0
        lens = [len(c.params_samp), len(c.losses_samp), len(c.series_samp), len(c.batch_num_samp), len(c.method_samp), c.n_sampled_params]
        if c.current_batch_index != done or any(x != rows for x in lens):
            bad = True
            msgs.append(f"completed={c.current_batch_index} expected {done}; lengths {lens} expected {rows}")
        elif rows and not (np.array_equal(c.series_samp, twin.series_samp[:rows]) and np.array_equal(c.losses_samp, twin.losses_samp[:rows])
                           and np.array_equal(c.params_samp, twin.params_samp[:rows])):
            bad = True
            msgs.append("history differs from the fault-free run's prefix")
        if sched_kind == "rl":
            th = next(iter(agent_threads(threads_before)), None)
            if th is not None:
                th.join(0.5)
            if th is not None and th.is_alive():
                bad = True
                msgs.append("agent thread still alive after the exception")
            if session_open(c.scheduler) is True:
                bad = True
                msgs.append("session flag still 'running'")
        box = {}

        def again():
            try:
                before = c.current_batch_index
                c.calibrate(2)
                if c.current_batch_index != before + 2:
                    box["msg"] = "next calibrate(2) did not add exactly two batches"
            except BaseException as e:  # noqa: BLE001
                reraise_if_harness(e)
                box["msg"] = f"next calibrate(2) raised {type(e).__name__}: {e}"

        th2 = threading.Thread(target=again, daemon=True)
        th2.start()
        th2.join(6.0)
        if th2.is_alive():
            bad = True
            msgs.append("next calibrate(2) on the same object never returned (6 s watchdog); live threads: " + ", ".join(t.name for t in threading.enumerate() if t is not threading.main_thread())[:200])
            _teardown(c.scheduler)
            try:
                rl_queues(c.scheduler)[0].put(0)
            except BaseException:  # noqa: BLE001, S110
                pass
        elif "msg" in box:
            bad = True
            msgs.append(box["msg"])
    finally:
        _teardown(c.scheduler)
        _RLoss.hook = None
        _RSampler.hook = None
        if tmp:
            shutil.rmtree(tmp, ignore_errors=True)
    return bad, f"{kind} fault at invocation {k}, scheduler={sched_kind}, batches={nb}, B={B}, E={E}: " + ("; ".join(msgs) or "consistent")


def cases(tier, seed):
    cs = []
    nbs = [3] if tier == "quick" else [3, 6]
    for kind in ("model", "loss", "sampler"):
        for sk in ("rr", "rl"):
            for nb in nbs:
                combos = [(1, 1, False), (2, 2, True)] if tier == "quick" else [(1, 1, False), (2, 1, True), (1, 2, False), (2, 2, True)]
                if nb == 6:
                    combos = [(1, 1, True)] if kind != "model" else [(1, 2, True)]
                for B, E, folder in combos:
                    cs.append(case(kind, sk, nb, B, E, folder))
    return cs


MANIFEST = {
    "category": "model_checking",
    "text": "Symbolic fault-index exploration of the real calibrate(): an exception is injected at a symbolic invocation index of model/loss/sampler (every index becomes a path), with free losses and a fault-free twin in the same solver context; z3 proves propagation, completed-batch count, history == twin prefix, alignment, session teardown (RL agent thread) and reusability. Counterexamples are replayed with real threads/files.",
    "note": "RL cases use a scripted agent and constant-reward environment; joblib replaced by its contract stub (exceptions propagate); batches <= 3 quick / 6 thorough.",
}
