"""Lifting the nine built-in samplers: module-global rebinding + learner / optimiser / distribution stubs."""
from __future__ import annotations

import contextlib

import numpy as np
import z3

import black_it.samplers.base as sbase
import black_it.samplers.best_batch as sbest
import black_it.samplers.cors as scors
import black_it.samplers.gaussian_process as sgp
import black_it.samplers.halton as shalton
import black_it.samplers.particle_swarm as spso
import black_it.samplers.r_sequence as srseq
import black_it.samplers.random_forest as srf
import black_it.samplers.random_uniform as sru
import black_it.samplers.surrogate as ssur
import black_it.samplers.xgboost as sxgb
import black_it.search_space as ss
import black_it.utils.base as ubase
import black_it.utils.seedable as seedable
from harness.losses import AckFun
from symx.core import Sym, cur, is_sym, lift
from symx.npx import NPX, NpProxy, patched, sym_range
from symx.stubs import SymGenerator, sym_default_rng


def _noprint(*a, **k):
    return None


class Learner:
    """Uninterpreted learner: predictions are fresh reals, a function of (training data, seed, query row) by Ackermann
    constraints (deterministic given inputs and random_state — the documented contract of sklearn/xgboost estimators)."""

    log = []

    def __init__(self, *a, **kw):
        self.kw = kw
        self.fitted = None
        # one prediction function per path, shared by all estimator instances: equal (training data, seed, query) => equal prediction
        self.F = AckFun.shared("learner_pred")
        Learner.log.append(self)

    def fit(self, X, y):  # noqa: N803
        # contract of the sklearn / xgboost estimators: non-finite training targets are refused
        for v in np.asarray(y, dtype=object).ravel():
            if not hasattr(v, "t") and not np.isfinite(float(v)):
                raise ValueError("Input y contains NaN or infinity (estimator contract: non-finite targets are refused)")
        self.fitted = (X, y, np.array(X, dtype=object).copy(), np.array(y, dtype=object).copy())
        return self

    def _train_args(self):
        X, y = self.fitted[2], self.fitted[3]
        seed = self.kw.get("random_state", 0)
        return list(np.asarray(X, dtype=object).ravel()) + list(np.asarray(y, dtype=object).ravel()) + [seed if seed is not None else 0]

    def predict(self, X, return_std=False, return_cov=False):  # noqa: N803
        X = np.asarray(X, dtype=object)
        tr = self._train_args()
        m = np.empty(len(X), dtype=object)
        for i, row in enumerate(X):
            m[i] = self.F(tr + list(np.atleast_1d(row)))[0]
        if not return_std:
            return m
        if not hasattr(self, "G"):
            self.G = AckFun.shared("learner_std")
        s = np.empty(len(X), dtype=object)
        for i, row in enumerate(X):
            v = self.G(tr + list(np.atleast_1d(row)))[0]
            cur().solver.add(v.t >= 0)
            s[i] = v
        return m, s


class XgbStub:
    XGBRegressor = Learner

    @staticmethod
    def DMatrix(data=None, label=None):  # noqa: N802
        return None


class KernelsStub:
    @staticmethod
    def Matern(**kw):  # noqa: N802
        return ("matern", tuple(sorted(kw.items())))


_ERFC = AckFun("erfc")


def erfc_stub(x):
    if is_sym(x):
        return _erfc1(x)
    x = np.asarray(x, dtype=object)
    out = np.empty(x.shape, dtype=object)
    for idx in np.ndindex(*x.shape):
        out[idx] = _erfc1(x[idx])
    return out


def _erfc1(v):
    f = cur().scratch.setdefault("erfc", AckFun("erfc"))
    r = f([v])[0]
    cur().solver.add(r.t >= 0, r.t <= 2)
    return r


class MinimizeResult:
    def __init__(self, x):
        self.x = x


class OpStub:
    """scipy.optimize.minimize(...).x is an arbitrary point inside the given bounds (a function of its inputs and the start)."""

    calls = 0

    @staticmethod
    def minimize(fun, x0, method=None, bounds=None, constraints=None, **kw):
        c = cur()
        k = c.scratch.get("minimize_calls", 0)
        c.scratch["minimize_calls"] = k + 1
        n = len(x0)
        x = np.empty(n, dtype=object)
        if "sym_call" in c.scratch and c.scratch.get("cur_call", 0) != c.scratch["sym_call"]:
            # calls not selected as symbolic return a fixed interior point (cuts the cross product of snapping forks)
            from fractions import Fraction as _F

            for i in range(n):
                x[i] = _F(37 + 11 * ((k + i) % 5), 100)
            return MinimizeResult(x)
        for i in range(n):
            v = c.real(f"minimize{k}_{i}")
            lo, hi = bounds[i]
            c.solver.add(v.t >= lift(lo), v.t <= lift(hi))
            x[i] = v
        return MinimizeResult(x)


class BetaBinomStub:
    """scipy.stats.betabinom(n, a, b): rvs(size=1) returns one integer in [0, n] drawn from the attached generator."""

    def __init__(self, n, a, b):
        self.n = n
        self.random_state = None

    def rvs(self, size=1, random_state=None):
        rs = random_state if random_state is not None else self.random_state
        return rs.integers(0, self.n + 1, size=size)


class _BetaBinomModule:
    """scipy.stats.betabinom in both calling styles: frozen `betabinom(n, a, b).rvs(size=)` with an attached random_state, and
    `betabinom.rvs(n, a, b, size=, random_state=)`."""

    def __call__(self, n, a, b):
        return BetaBinomStub(n, a, b)

    @staticmethod
    def rvs(n, a, b, size=1, random_state=None, loc=0):
        return BetaBinomStub(n, a, b).rvs(size=size, random_state=random_state) + loc


betabinom_stub = _BetaBinomModule()


class IndexGenerator(SymGenerator):
    """Generator whose integer ARRAYS are concretised at once (numpy rejects object arrays as indices); every feasible
    value is explored as a path."""

    def integers(self, low, high=None, size=None, **kw):
        r = super().integers(low, high, size=size, **kw)
        if size is None:
            lo, hi = (0, low) if high is None else (low, high)
            if isinstance(lo, (int, np.integer)) and isinstance(hi, (int, np.integer)) and hi - lo <= 8:
                return int(r)  # small ranges: explore every value (keeps products of draws linear)
            return r
        lo, hi = (0, low) if high is None else (low, high)
        if not (isinstance(lo, (int, np.integer)) and isinstance(hi, (int, np.integer)) and hi - lo <= 4096):
            return r  # wide ranges (seeds drawn as an array) are never used as indices: they stay symbolic
        out = np.empty(r.shape, dtype=np.int64)
        for idx in np.ndindex(*r.shape):
            out[idx] = int(r[idx])
        return out

    def choice(self, a, size=None, replace=True, **kw):
        if isinstance(a, (int, np.integer)) and size is not None:
            size = tuple(int(s) for s in (size if isinstance(size, tuple) else (size,)))
            r = super().choice(a, size=size, replace=replace, **kw)
            out = np.empty(r.shape, dtype=np.int64)
            for idx in np.ndindex(*r.shape):
                out[idx] = int(r[idx])
            return out
        return super().choice(a, size=size, replace=replace, **kw)


def index_rng(seed=None):
    return IndexGenerator(seed)


class ObjectRealGenerator:
    """The real numpy generator (concrete draws), handing floats out as exact rationals in object arrays so that symbolic
    values can later be stored next to them."""

    def __init__(self, seed=None):
        from fractions import Fraction as _F

        self._g = np.random.default_rng(seed)
        self._F = _F
        self.bit_generator = self._g.bit_generator

    def _obj(self, a):
        if isinstance(a, np.ndarray) and a.dtype.kind == "f":
            out = np.empty(a.shape, dtype=object)
            for idx in np.ndindex(*a.shape):
                out[idx] = self._F(float(a[idx]))
            return out
        return a

    def random(self, size=None, **kw):
        return self._obj(self._g.random(size=size, **kw))

    def integers(self, *a, **kw):
        return self._g.integers(*a, **kw)

    def choice(self, a, size=None, replace=True, **kw):
        if isinstance(a, np.ndarray) and a.dtype == object:
            idx = self._g.choice(len(a), size=size, replace=replace)
            return a[idx]
        return self._g.choice(a, size=size, replace=replace, **kw)


def object_real_rng(seed=None):
    return ObjectRealGenerator(seed)


class _LinalgStub:
    @staticmethod
    def norm(x, *a, **k):
        return np.linalg.norm(x, *a, **k)

    @staticmethod
    def solve(M, v):  # noqa: N803
        c = cur()
        k = c.scratch.get("solve_calls", 0)
        c.scratch["solve_calls"] = k + 1
        return np.array([Sym(z3.Real(f"linsolve{k}_{i}")) for i in range(len(v))], dtype=object)

    lstsq = None


class _NPCors(NpProxy):
    linalg = _LinalgStub()


@contextlib.contextmanager
def sampler_world(rng=sym_default_rng, identity_digitize=False, stub_rbf=False):
    Learner.log = []
    names = {}
    if identity_digitize:
        names["digitize_data"] = lambda data, grid: data
    with patched(sbase, np=NPX, print=_noprint), patched(shalton, np=NPX, range=sym_range, **names), patched(srseq, np=NPX, **names), \
            patched(sru, np=NPX), patched(sbest, np=NPX, betabinom=betabinom_stub), patched(spso, np=NPX, **names), \
            patched(ssur, np=NPX, **names), patched(scors, np=_NPCors(), op=OpStub, print=_noprint, rbf=(lambda points, losses: (lambda x: 0.0)) if stub_rbf else scors.rbf, **names), \
            patched(sxgb, np=NPX, xgb=XgbStub), patched(srf, np=NPX, RandomForestClassifier=Learner), \
            patched(sgp, np=NPX, GaussianProcessRegressor=Learner, kernels=KernelsStub, erfc=erfc_stub), \
            patched(ss, np=NPX, print=_noprint), patched(ubase, np=NPX), \
            (patched(seedable, default_rng=rng) if rng is not None else contextlib.nullcontext()):
        yield


class Space:
    """A search-space view (same attributes as SearchSpace) whose grid may be symbolic."""

    def __init__(self, lows, highs, precisions, grids):
        self.parameters_bounds = np.array([lows, highs], dtype=object)
        self.parameters_precision = np.array(precisions, dtype=object)
        self.param_grid = grids
        self.dims = len(precisions)
        self.space_size = int(np.prod([len(g) for g in grids]))
