"""C14 — early stopping happens exactly when the best loss rounds to zero."""
from __future__ import annotations

import shutil
import tempfile
from fractions import Fraction

import numpy as np
import z3

import black_it.calibrator as cal
from black_it.loss_functions.base import BaseLoss
from black_it.samplers.base import BaseSampler
from harness.calib import FreeLoss, SaveRecorder, ScriptedSampler, model_uf, world
from harness.common import Case, f
from symx.core import lift
from symx.core import reraise_if_harness  # noqa: E402

LEVEL = "model_checking"
FUNCTIONS = ["black_it.calibrator:Calibrator.calibrate", "black_it.calibrator:Calibrator.check_convergence",
             "black_it.calibrator:Calibrator.__init__", "black_it.calibrator:Calibrator.create_checkpoint"]
NUMBER_MODEL = "R (exact reals); np.round(x,p) modelled as half-to-even at p decimals, oracle uses the independent characterisation |x|*10^p <= 1/2"
EXPLANATION = (
    "The real Calibrator.calibrate loop is executed with every loss a free z3 Real, verbose a free Bool, and a recording stub in "
    "place of the checkpoint writer. On every path z3 proves that the number of batches executed equals the reference stopping "
    "time min(n, first k with |min(L[:kB])|*10^p <= 1/2), that returned history and last checkpoint contain the stopping batch, for "
    "one or two calibrate() calls."
)
ASSUMPTIONS = [
    "losses are arbitrary reals (any loss sequence can be scripted through a model); sampler proposals are free reals; dedup budget 0",
    "joblib.Parallel contract stub (in-order results), RNG contract stub, print/time are no-ops",
    "np.argsort of the final history replaced by the identity permutation in this harness (the return order is C02's subject)",
    "save_calibrator_state replaced by a recorder (what is written to disk is C04's subject; the replay uses the real files)",
]
OUTSIDE = ["float rounding of np.round at exactly representable ties", "more than 3 (quick) / 5 (thorough) batches"]
REQUIRED_LABELS = ["stops_exactly", "history_has_stop_batch", "checkpoint_has_stop_batch"]


def bounds(tier):
    return {"quick": "precision in {None,0,1,3,12}; n_batches 1..3; batch size 1..2; verbose symbolic; folder set/unset; optional second calibrate(1..2)",
            "thorough": "precision None,0..12; n_batches 1..5; batch size 1..2; second calibrate(1..2)"}[tier]


def _expected_runs(Ls, B, p, start_batch, n_req):
    """z3 Int: number of batches a calibrate(n_req) starting at batch start_batch must execute."""
    if p is None:
        return z3.IntVal(n_req)
    scale = 10 ** p
    exp = z3.IntVal(n_req)
    for j in reversed(range(1, n_req + 1)):
        k = start_batch + j
        rows = Ls[: k * B]
        if len(rows) < k * B:
            continue
        m = rows[0]
        for x in rows[1:]:
            m = z3.If(x < m, x, m)
        am = z3.If(m >= 0, m, -m)
        conv = am * scale <= z3.RealVal("1/2")
        exp = z3.If(conv, z3.IntVal(j), exp)
    return exp


def case(p, n1, B, folder, n2):
    name = f"p{p}-n{n1}-B{B}-{'dir' if folder else 'nodir'}-then{n2}"
    total = n1 + n2

    def body(ctx):
        verbose = ctx.bool("verbose")
        rec = SaveRecorder()
        with world(argsort_identity=True, recorder=rec):
            loss = FreeLoss(ctx, consistent=False)
            c = cal.Calibrator(loss_function=loss, real_data=np.zeros((2, 1)), model=model_uf(1, 2, 1),
                               parameters_bounds=[[0.0], [1.0]], parameters_precision=[0.25], ensemble_size=1,
                               samplers=[ScriptedSampler(B, ctx)], convergence_precision=p, verbose=verbose,
                               saving_folder="/nonexistent/verif-c14" if folder else None, random_state=ctx.int("seed", 0), n_jobs=1)
            # all potential losses exist as variables up-front so the reference can talk about them
            allL = [z3.Real(f"L{i}") for i in range(total * B)]
            done = 0
            for call, n_req in enumerate([n1, n2]):
                if n_req == 0:
                    continue
                before = c.current_batch_index
                nsaves = len(rec.saves)
                params, losses = c.calibrate(n_req)
                ran = c.current_batch_index - before
                exp = _expected_runs(allL, B, p, before, n_req)
                ctx.prove(exp == ran, "stops_exactly", f"call {call}: requested {n_req} from batch {before}, ran {ran}")
                rows = c.current_batch_index * B
                ctx.prove(z3.BoolVal(len(losses) == rows and len(params) == rows and c.n_sampled_params == rows
                                     and len(c.losses_samp) == rows and len(c.batch_num_samp) == rows),
                          "history_has_stop_batch", f"rows={len(losses)} expected {rows}")
                if folder:
                    ok = len(rec.saves) > nsaves and rec.saves[-1]["current_batch_index"] == c.current_batch_index \
                        and len(rec.saves[-1]["losses_samp"]) == rows and rec.saves[-1]["n_sampled_params"] == rows
                    ctx.prove(z3.BoolVal(bool(ok)), "checkpoint_has_stop_batch",
                              f"last save has batch index {rec.saves[-1]['current_batch_index'] if rec.saves else None}, live {c.current_batch_index}")
                    ctx.prove(z3.BoolVal(len(rec.saves) - nsaves == ran), "checkpoint_has_stop_batch", "one checkpoint per executed batch")
                else:
                    ctx.prove(z3.BoolVal(len(rec.saves) == 0), "checkpoint_has_stop_batch", "no folder => no checkpoint")
            ctx.sample({"case": name, "batches_run": c.current_batch_index})

    def replay(cex):
        v = cex.values
        Ls = [float(f(v.get(f"L{i}", 1))) for i in range(total * B)]
        verbose = bool(v.get("verbose"))
        return replay_concrete(p, n1, B, folder, n2, Ls, verbose)

    return Case(name, body, replay)


class _MeanLoss(BaseLoss):
    def compute_loss_1d(self, sim, real):
        return float(np.mean(sim))


class _SeqSampler(BaseSampler):
    def __init__(self, batch_size):
        super().__init__(batch_size, max_deduplication_passes=0)
        self.i = 0

    def sample_batch(self, batch_size, search_space, existing_points, existing_losses):
        out = np.array([[0.25 * ((self.i + r) % 5)] for r in range(batch_size)])
        self.i += batch_size
        return out


def replay_concrete(p, n1, B, folder, n2, Ls, verbose):
    """Real Calibrator, real files; the model scripts the loss sequence."""
    counter = [0]

    def model(theta, N, seed):
        i = counter[0]
        counter[0] += 1
        return np.full((N, 1), Ls[i] if i < len(Ls) else 1.0)

    model.__name__ = "model"
    tmp = tempfile.mkdtemp(prefix="verif-c14-") if folder else None
    try:
        c = cal.Calibrator(loss_function=_MeanLoss(), real_data=np.zeros((2, 1)), model=model, parameters_bounds=[[0.0], [1.0]],
                           parameters_precision=[0.25], ensemble_size=1, samplers=[_SeqSampler(B)], convergence_precision=p,
                           verbose=verbose, saving_folder=tmp, random_state=0, n_jobs=1)
        msgs = []
        bad = False
        for n_req in [n1, n2]:
            if n_req == 0:
                continue
            before = c.current_batch_index
            params, losses = c.calibrate(n_req)
            ran = c.current_batch_index - before
            exp = n_req
            tie = False
            if p is not None:
                for j in range(1, n_req + 1):
                    m = min(Fraction(x) for x in Ls[: (before + j) * B])
                    # a running minimum within 1e-9 (relative) of the rounding tie is outside the claim:
                    # binary64 np.round and exact decimal rounding may legitimately differ there
                    if abs(abs(m) * 10**p - Fraction(1, 2)) < Fraction(1, 10**9):
                        tie = True
                    if abs(m) * 10**p <= Fraction(1, 2):
                        exp = j
                        break
            msgs.append(f"calibrate({n_req}) from batch {before}: ran {ran}, expected {exp}" + (" (tie region: either accepted)" if tie else ""))
            if (ran != exp and not tie) or len(losses) != c.current_batch_index * B:
                bad = True
            if folder:
                from black_it.utils.json_pandas_checkpointing import load_calibrator_state

                try:
                    st = load_calibrator_state(tmp, 0)
                    if st[14] != c.current_batch_index or len(st[18]) != c.current_batch_index * B:
                        bad = True
                        msgs.append(f"checkpoint holds batch index {st[14]} / {len(st[18])} rows, live object {c.current_batch_index} / {len(c.losses_samp)}")
                except Exception as e:  # noqa: BLE001
                    reraise_if_harness(e)
                    bad = True
                    msgs.append(f"checkpoint unreadable: {type(e).__name__}: {e}")
        return bad, f"p={p} B={B} verbose={verbose} losses={Ls}: " + "; ".join(msgs)
    finally:
        if tmp:
            shutil.rmtree(tmp, ignore_errors=True)


def cases(tier, seed):
    cs = []
    if tier == "quick":
        ps = [None, 0, 1, 3, 12]
        for p in ps:
            for B in (1, 2):
                cs.append(case(p, 3 if B == 1 else 2, B, True, 0))
            cs.append(case(p, 2, 1, False, 0))
            cs.append(case(p, 1, 1, True, 2))
            cs.append(case(p, 2, 2, True, 1))
    else:
        for p in [None] + list(range(13)):
            for B in (1, 2):
                for n1 in (1, 3, 5 if B == 1 else 3):
                    cs.append(case(p, n1, B, True, 0))
                cs.append(case(p, 2, B, False, 1))
                cs.append(case(p, 2, B, True, 2))
            if p in (None, 0, 6, 12):
                cs.append(case(p, 6, 1, True, 0))
                cs.append(case(p, 2, 3, True, 1))
    return cs


MANIFEST = {
    "category": "model_checking",
    "text": "Bounded symbolic execution of the real calibrate() loop with all losses free reals and verbose a free boolean: z3 proves on every path that the number of executed batches equals the reference stopping time (first batch whose running minimum rounds to zero at p decimals, else n), independent of verbosity, and that the stopping batch is in the returned history and in the last checkpoint, across one or two calibrate() calls.",
    "note": "Exact-real rounding model; checkpoint writer replaced by a recorder in the symbolic run (the replay uses the real files); final argsort replaced by identity here; batches <= 3 (quick) / 5 (thorough), batch size <= 2.",
}
