"""C10 — the RL scheduler-agent exchange is correct under every thread interleaving."""
from __future__ import annotations

import threading
import time
from fractions import Fraction

import numpy as np
import z3

import black_it.schedulers.rl.envs.base as envbase
import black_it.schedulers.rl.rl_scheduler as rls
from black_it.samplers.halton import HaltonSampler
from black_it.samplers.random_uniform import RandomUniformSampler
from black_it.schedulers.rl.agents.base import Agent
from black_it.schedulers.rl.agents.epsilon_greedy import MABEpsilonGreedy
from black_it.schedulers.rl.envs.mab import MABCalibrationEnv
from harness.common import Case, f
from symx.baton import Baton, Deadlock, ThreadKill, make_shims
from symx.core import PathAbort, Sym, data_decisions, is_sym, lift, schedule_of
from symx.npx import NPX, patched, sym_float
from symx.core import reraise_if_harness  # noqa: E402
from harness.rlintro import agent_threads, qlen, rl_queues, scalar_state  # noqa: E402

LEVEL = "model_checking"
FUNCTIONS = [
    "black_it.schedulers.rl.rl_scheduler:RLScheduler._train", "black_it.schedulers.rl.rl_scheduler:RLScheduler.start_session",
    "black_it.schedulers.rl.rl_scheduler:RLScheduler.get_next_sampler", "black_it.schedulers.rl.rl_scheduler:RLScheduler.update",
    "black_it.schedulers.rl.rl_scheduler:RLScheduler.end_session", "black_it.schedulers.base:BaseScheduler.session",
    "black_it.schedulers.rl.envs.base:CalibrationEnv.step", "black_it.schedulers.rl.envs.mab:MABCalibrationEnv.get_reward",
    "black_it.schedulers.rl.agents.epsilon_greedy:MABEpsilonGreedy.policy", "black_it.schedulers.rl.agents.epsilon_greedy:MABEpsilonGreedy.learn",
    "black_it.calibrator:Calibrator.calibrate", "black_it.calibrator:Calibrator._set_samplers_seeds", "black_it.schedulers.rl.rl_scheduler:RLScheduler._set_random_state",
]
NUMBER_MODEL = "R exact: per-batch best losses are symbolic reals (improving or not is decided by the solver); the schedule is a symbolic choice at every synchronisation point"
EXPLANATION = (
    "The real RLScheduler / CalibrationEnv / agent methods run on real threads under a cooperative baton scheduler: at every queue "
    "put/get, session-flag read/write and thread start/join the next thread to run is a choice of the explorer, so every interleaving at "
    "those points is a path (visited-state pruning over thread observations, queue contents, flag and agent log). The calibration side is "
    "the loop calibrate() performs (session(); get_next_sampler(); update()). On every complete path z3 proves, over the symbolic "
    "losses: the learn() calls are exactly one per agent-chosen batch with the documented reward of that batch and the index of the "
    "sampler that ran; both queues are empty and no agent thread is alive when a session ends; no state has all threads blocked; the "
    "sequence of chosen samplers is the same on every schedule."
)
ASSUMPTIONS = [
    "queue operations, attribute reads/writes and learn() are atomic (GIL); interleavings inside them are outside the claim",
    "scripted agent: the i-th policy() call returns script[i] (choices do not depend on rewards), or the real epsilon-greedy agent with eps=0 (greedy on learned values); real MABCalibrationEnv",
    "the calibration side performs exactly the scheduler calls of Calibrator.calibrate (C02/C09 cover the rest of the loop)",
]
OUTSIDE = ["more than 3 sessions x 3 batches", "interleavings inside a queue operation"]
REQUIRED_LABELS = ["learn_once_per_chosen_batch", "no_message_left", "no_deadlock", "schedule_independent", "no_thread_left"]


def bounds(tier):
    return {"quick": "sessions x batches in {[1],[2],[3],[1,1],[2,1],[1,2]}, scripted agent; [2] and [1,1] with the greedy agent; symbolic losses; all interleavings (with state pruning)",
            "thorough": "adds [2,2],[3,1],[1,1,1],[2,2,2] scripted and [2,1],[1,2] greedy"}[tier]


class ScriptAgent(Agent):
    def __init__(self, script):
        super().__init__(random_state=0)
        self.script = script
        self.n_policy = 0
        self.learned = []

    def policy(self, state):
        a = self.script[self.n_policy % len(self.script)]
        self.n_policy += 1
        return a

    def learn(self, state, action, reward, next_state):
        self.learned.append((action, reward))


class LoggedGreedy(MABEpsilonGreedy):
    def __init__(self, n):
        super().__init__(n, alpha=0.5, eps=0.0, initial_values=0.0, random_state=0)
        self.learned = []
        self.n_policy = 0

    def policy(self, obs):
        self.n_policy += 1
        return super().policy(obs)

    def learn(self, state, action, reward, next_state):
        self.learned.append((action, reward))
        return super().learn(state, action, reward, next_state)


def _install_flag(baton_ref):
    """RLScheduler._stopped as a class-level property whose reads/writes are yield points."""

    def get(self):
        b = baton_ref()
        b.yield_point("read _stopped")
        v = self.__dict__.get("_stopped_value", True)
        b.observe(("stopped", v))
        return v

    def set_(self, v):
        baton_ref().yield_point("write _stopped")
        self.__dict__["_stopped_value"] = v

    return property(get, set_)


def run_protocol(sessions, agent_kind, losses, choose, on_state=None, publish=None):
    """Drive the real scheduler through `sessions` (list of batches per session) with per-batch best losses `losses`.
    Returns a dict describing what happened (logs), raising Deadlock if all threads block."""
    holder = {}
    baton = Baton(choose, on_state)
    holder["b"] = baton
    BThread, BQueue = make_shims(lambda: holder["b"])

    class _Threading:
        Thread = BThread

        def __getattr__(self, n):
            return getattr(threading, n)

    result = {"chosen": [], "learned": None, "leftover": [], "alive_after": [], "deadlock": None, "errors": [], "policy_calls": None}
    prop = _install_flag(lambda: holder["b"])
    with patched(envbase, Queue=BQueue), patched(rls, threading=_Threading(), float=sym_float, np=NPX), patched(rls.RLScheduler, _stopped=prop):
        samplers = [RandomUniformSampler(batch_size=1, random_state=0), RandomUniformSampler(batch_size=1, random_state=1)]  # Halton is added as index 2
        n_eff = 3
        agent = ScriptAgent([1, 0, 2, 1, 1, 0, 2]) if agent_kind == "script" else LoggedGreedy(n_eff)
        env = MABCalibrationEnv(n_eff)
        sched = rls.RLScheduler(samplers, agent, env, random_state=0)
        holder["sched"], holder["agent"], holder["env"] = sched, agent, env
        if publish is not None:
            publish.update(sched=sched, agent=agent, env=env, chosen=result["chosen"])
        t = 0
        try:
            for s_i, nb in enumerate(sessions):
                with sched.session():
                    for _ in range(nb):
                        smp = sched.get_next_sampler()
                        idx = [k for k, x in enumerate(sched.samplers) if x is smp]
                        result["chosen"].append(idx[0] if idx else None)
                        sched.update(t, np.array([[0.5]]), [losses[t]], None)
                        t += 1
                # session ended
                result["leftover"].append(tuple(qlen(q) for q in rl_queues(sched)))
                result["alive_after"].append(list(baton.alive()))
        except Deadlock as e:
            result["deadlock"] = str(e)
        except ThreadKill:
            raise
        finally:
            result["trace"] = list(baton.trace)
            baton.kill_all()
        result["learned"] = list(agent.learned)
        result["policy_calls"] = agent.n_policy
        for n in baton.order:
            th = baton.threads[n]["thread"]
            if th is not None and th.exc is not None:
                result["errors"].append(f"{n}: {type(th.exc).__name__}: {th.exc}")
    return result


def expected_learn(sessions, chosen, losses):
    """Reference: one (action, reward) per agent-chosen batch, reward = relative improvement of the best loss."""
    exp = []
    best = None
    t = 0
    for nb in sessions:
        for _ in range(nb):
            L = losses[t]
            if best is None:
                best = L  # bootstrap batch: not chosen by the agent
            else:
                prev = best
                improved = L < prev
                exp.append((chosen[t], prev, L))
                best = _ite(improved, L, prev)
            t += 1
    return exp


def _ite(c, a, b):
    from symx.core import SymBool, sym_ite

    if isinstance(c, SymBool):
        return sym_ite(c, a, b)
    return a if c else b


def _state_key(ctx, holder, extra=None):
    def key(b):
        sched, agent, env = holder["sched"], holder["agent"], holder["env"]
        from symx.baton import _key

        k = (
            tuple((n, b.threads[n]["status"], b.threads[n]["pending"]) for n in b.order),
            tuple((n, tuple(b.obs[n])) for n in b.order),
            tuple(tuple(_key(x) for x in q.items) for q in rl_queues(sched)),
            sched.__dict__.get("_stopped_value"), tuple((a, _key(r)) for a, r in agent.learned), agent.n_policy,
            scalar_state(sched, env), tuple(holder.get("chosen", [])),
            data_decisions(ctx),  # data decisions so far (the path condition)
            extra() if extra else None,
        )
        if ctx.pos < len(ctx.prefix):
            return None  # still replaying the decision prefix of this path: these states were recorded by an earlier path
        seen = ctx.persist.setdefault("visited", set())
        if k in seen:
            ctx.note("pruned_states")
            return PathAbort()
        seen.add(k)
        return None

    return key


def case(sessions, agent_kind, prune=True):
    total = sum(sessions)
    name = f"{agent_kind}-{'_'.join(map(str, sessions))}" + ("" if prune else "-unpruned")

    def body(ctx):
        losses = [ctx.real(f"loss{t}", 0, None) for t in range(total)]
        for L in losses:
            ctx.solver.add(L.t > 0)
        holder = {}

        def choose(n, labels):
            return ctx.choose(n)

        # visited-state pruning needs the live objects: run_protocol fills `holder` through the callback closure
        proto_holder = {}

        def on_state(b):
            if not prune or "sched" not in proto_holder:
                return None
            return _state_key(ctx, proto_holder)(b)

        res = _run(ctx, sessions, agent_kind, losses, choose, on_state, proto_holder)
        _check(ctx, sessions, agent_kind, losses, res)

    def replay(cex):
        Ls = [float(f(cex.values.get(f"loss{t}", 1.0 / (t + 1)))) or 1.0 for t in range(total)]
        sched_choices = schedule_of(cex)
        return replay_concrete(sessions, agent_kind, Ls, sched_choices)

    return Case(name, body, replay, time_budget=500, max_paths=400000)


def _run(ctx, sessions, agent_kind, losses, choose, on_state, proto_holder):
    return run_protocol(sessions, agent_kind, losses, choose, on_state, publish=proto_holder)


def _check(ctx, sessions, agent_kind, losses, res):
    total = sum(sessions)
    ctx.prove(z3.BoolVal(res["deadlock"] is None), "no_deadlock", str(res["deadlock"]))
    if res["deadlock"] is not None:
        return
    ctx.prove(z3.BoolVal(not res["errors"]), "no_deadlock", f"thread errors: {res['errors']}")
    ctx.prove(z3.BoolVal(all(lo == (0, 0) for lo in res["leftover"])), "no_message_left", f"(action queue, outcome queue) sizes after each session: {res['leftover']}")
    ctx.prove(z3.BoolVal(all(not a for a in res["alive_after"])), "no_thread_left", f"agent threads alive after each session: {res['alive_after']}")
    chosen = res["chosen"]
    ctx.prove(z3.BoolVal(len(chosen) == total and chosen[0] == 2 and all(c is not None for c in chosen)), "learn_once_per_chosen_batch", f"samplers used {chosen} (first must be the bootstrap Halton, index 2)")
    exp = expected_learn(sessions, chosen, losses)
    got = res["learned"]
    ok_len = len(got) == len(exp)
    ctx.prove(z3.BoolVal(ok_len), "learn_once_per_chosen_batch", f"{len(got)} learn() calls for {len(exp)} agent-chosen batches: learned actions {[a for a, _ in got]}, executed {[a for a, _, _ in exp]}")
    if ok_len:
        conds = []
        for (a, r), (ea, prev, new) in zip(got, exp):
            conds.append(z3.BoolVal(a == ea))
            pt, nt = lift(prev), lift(new)
            conds.append(lift(r) == z3.If(nt < pt, (pt - nt) / pt, z3.RealVal(0)))
        ctx.prove(z3.And(*conds) if conds else z3.BoolVal(True), "learn_once_per_chosen_batch", "each learn(action, reward): action = sampler that ran, reward = relative improvement of that batch")
    # schedule independence: same data decisions => same sampler sequence on every schedule
    datakey = data_decisions(ctx) if agent_kind != "script" else ()
    first = ctx.persist.setdefault("first_seq", {})
    if datakey not in first:
        first[datakey] = list(chosen)
    ctx.prove(z3.BoolVal(first[datakey] == list(chosen)), "schedule_independent", f"sampler sequence {chosen} on this schedule, {first[datakey]} on another one (same losses)")
    ctx.sample({"sessions": sessions, "chosen": chosen, "learned_actions": [a for a, _ in got], "schedule_len": len(res["trace"])})


def replay_concrete(sessions, agent_kind, Ls, sched_choices):
    """The real code on real threads; the recorded schedule is forced at the same synchronisation points, then the same
    scenario also runs free (OS scheduling) for comparison."""
    it = iter(sched_choices)

    def choose(n, labels):
        try:
            v = next(it)
        except StopIteration:
            v = 0
        return v if v < n else 0

    res = run_protocol(sessions, agent_kind, Ls, choose, None)
    msgs = _judge(sessions, Ls, res)
    free = free_run(sessions, agent_kind, Ls)
    fmsgs = _judge(sessions, Ls, free)
    info = f"sessions={sessions} losses={Ls} agent={agent_kind}: forced schedule ({len(res['trace'])} steps): " + ("; ".join(msgs) or "protocol respected")
    info += " | free-running real threads: " + ("; ".join(fmsgs[:2]) or "protocol respected")
    if msgs and "schedule" not in "".join(msgs):
        pass
    return bool(msgs), info


def _judge(sessions, Ls, res):
    msgs = []
    if res["deadlock"]:
        return [f"deadlock: {res['deadlock']}"]
    if res["errors"]:
        msgs.append(f"thread errors {res['errors']}")
    if any(lo != (0, 0) for lo in res["leftover"]):
        msgs.append(f"messages left in (action, outcome) queues after each session: {res['leftover']}")
    if any(res["alive_after"]):
        msgs.append(f"agent thread alive after end_session: {res['alive_after']}")
    chosen = res["chosen"]
    exp = []
    best = None
    t = 0
    for nb in sessions:
        for _ in range(nb):
            if best is None:
                best = Ls[t]
            else:
                r = (best - Ls[t]) / best if Ls[t] < best else 0.0
                exp.append((chosen[t], r))
                best = min(best, Ls[t])
            t += 1
    got = [(a, float(r)) for a, r in res["learned"]]
    if len(got) != len(exp):
        msgs.append(f"{len(got)} learn() calls {got} for {len(exp)} agent-chosen batches {exp}")
    else:
        for (a, r), (ea, er) in zip(got, exp):
            if a != ea or abs(r - er) > 1e-12:
                msgs.append(f"learn({a}, {r}) but the batch ran sampler {ea} with reward {er}")
                break
    return msgs


def free_run(sessions, agent_kind, Ls):
    """No control at all: real threading.Thread / queue.Queue, OS scheduling."""
    samplers = [RandomUniformSampler(batch_size=1, random_state=0), RandomUniformSampler(batch_size=1, random_state=1)]
    agent = ScriptAgent([1, 0, 2, 1, 1, 0, 2]) if agent_kind == "script" else LoggedGreedy(3)
    env = MABCalibrationEnv(3)
    sched = rls.RLScheduler(samplers, agent, env, random_state=0)
    res = {"chosen": [], "leftover": [], "alive_after": [], "deadlock": None, "errors": [], "trace": []}
    t = 0
    threads_before = list(threading.enumerate())
    done = threading.Event()

    def drive():
        nonlocal t
        try:
            for nb in sessions:
                with sched.session():
                    for _ in range(nb):
                        smp = sched.get_next_sampler()
                        res["chosen"].append([k for k, x in enumerate(sched.samplers) if x is smp][0])
                        sched.update(t, np.array([[0.5]]), [Ls[t]], None)
                        t += 1
                time.sleep(0.01)
                res["leftover"].append(tuple(qlen(q) for q in rl_queues(sched)))
                res["alive_after"].append(["agent"] if agent_threads(threads_before) else [])
        except Exception as e:  # noqa: BLE001
            reraise_if_harness(e)
            res["errors"].append(f"{type(e).__name__}: {e}")
        done.set()

    th = threading.Thread(target=drive, daemon=True)
    th.start()
    if not done.wait(5.0):
        res["deadlock"] = "calibration thread did not finish within 5 s"
        res["chosen"] += [None] * (sum(sessions) - len(res["chosen"]))
    res["learned"] = list(agent.learned)
    return res


class ProbeAgent(ScriptAgent):
    """Scripted choices, but every policy() call also consumes one draw of the agent's generator (as the epsilon-greedy agent
    does) and records WHICH stream it came from: (seed term, draw counter)."""

    def __init__(self, script, rec, random_state=None):
        Agent.__init__(self, random_state=random_state)
        self.script, self.n_policy, self.learned, self.rec = script, 0, [], rec

    def policy(self, state):
        g = self.random_generator
        self.rec.append((str(lift(g.seed)), g.k))
        g.random()
        return ScriptAgent.policy(self, state)


def case_via_calibrator(nb, policy):
    """The same exchange driven by the real Calibrator.calibrate() (seeding cascade + session + loop). Building a calibrator per
    path is too slow for all interleavings, so three schedule policies are run: calibration thread first, agent thread first,
    and strict alternation; the agent's draws must come from the stream determined by the calibrator seed on each of them."""
    name = f"via-calibrator-{nb}-{policy}"

    def body(ctx):
        import black_it.calibrator as cal
        from harness.calib import FreeLoss, ScriptedSampler, make_sampler_class, model_uf, world

        holder, publish, rec = {}, {}, []

        turn = [0]

        def chooser(n, labels):
            turn[0] += 1
            if policy == "all":
                return ctx.choose(n)
            return {"main-first": 0, "agent-first": n - 1}.get(policy, turn[0] % n)

        def on_state(b):
            if policy != "all" or "sched" not in publish:
                return None
            return _state_key(ctx, publish, lambda: (tuple(rec), str(lift(agent.random_generator.seed)), agent.random_generator.k, c.current_batch_index, len(c.losses_samp)))(b)

        baton = Baton(chooser, on_state)
        holder["b"] = baton
        BThread, BQueue = make_shims(lambda: holder["b"])

        class _Threading:
            Thread = BThread

            def __getattr__(self, n):
                return getattr(threading, n)

        prop = _install_flag(lambda: holder["b"])
        chosen = []
        import black_it.samplers.halton as shalton
        from harness.detcal import halton_uf, snap_uf

        # the bootstrap Halton sampler's arithmetic (C13's subject) as an uninterpreted function of the symbolic start index
        with world(argsort_identity=True), patched(shalton, halton=halton_uf, digitize_data=snap_uf), patched(envbase, Queue=BQueue), \
                patched(rls, threading=_Threading(), float=sym_float, np=NPX), patched(rls.RLScheduler, _stopped=prop):
            try:
                samplers = [make_sampler_class("SampA")(1, ctx, tag="A"), make_sampler_class("SampB")(1, ctx, tag="B")]
                agent = ProbeAgent([1, 0, 2, 1], rec, random_state=ctx.int("agent_ctor_seed", 0))
                env = MABCalibrationEnv(3)
                sched = rls.RLScheduler(samplers, agent, env, random_state=ctx.int("sched_ctor_seed", 0))
                publish.update(sched=sched, agent=agent, env=env, chosen=chosen)
                class FallingLoss:  # concrete, strictly decreasing: the data flow is not this case's subject (direct-drive cases have symbolic losses)
                    n = 0

                    def compute_loss(self, sim, real):
                        self.n += 1
                        return 1.0 / self.n

                c = cal.Calibrator(loss_function=FallingLoss(), real_data=np.zeros((2, 1)), model=model_uf(1, 2, 1), parameters_bounds=[[0.0], [1.0]],
                                   parameters_precision=[0.25], ensemble_size=1, scheduler=sched, verbose=False, random_state=ctx.int("S", 0), n_jobs=1)
                deadlock = None
                try:
                    c.calibrate(nb)
                except Deadlock as e:
                    deadlock = str(e)
                chosen.extend(int(x) for x in c.method_samp)
            finally:
                baton.kill_all()
        ctx.prove(z3.BoolVal(deadlock is None), "no_deadlock", str(deadlock))
        if deadlock is not None:
            return
        ctx.prove(z3.BoolVal(tuple(qlen(q) for q in rl_queues(sched)) == (0, 0) and not baton.alive()), "no_message_left", "queues empty and agent thread ended after calibrate()")
        ctx.prove(z3.BoolVal([k for _, k in rec] == list(range(len(rec))) and len({s for s, _ in rec}) == 1), "schedule_independent", f"agent draws come from ONE stream, consecutively: {rec[:4]}")
        ctx.prove(z3.BoolVal(all("agent_ctor_seed" not in s for s, _ in rec)), "schedule_independent", f"the agent drew from the stream it was CONSTRUCTED with, not the one seeded by the calibration: {rec[:2]}")
        ctx.sample({"case": name, "agent_draws": rec[:3], "labels": chosen})

    def replay(cex):
        return replay_via_calibrator(nb)

    return Case(name, body, replay, time_budget=300)


def replay_via_calibrator(nb):
    """Real threads, real calibrator: the agent is constructed with two different seeds; with an early agent thread (the
    calibration thread is delayed right after start_session) its first draw must not depend on the constructor seed."""
    import contextlib
    import io

    import black_it.calibrator as cal
    from black_it.loss_functions.minkowski import MinkowskiLoss

    def run(agent_seed, delay):
        draws = []

        class A(MABEpsilonGreedy):
            def policy(self, obs):
                s = self.random_generator.bit_generator.state["state"]["state"]
                draws.append(s)
                return super().policy(obs)

        class Sched(rls.RLScheduler):
            def start_session(self):
                super().start_session()
                if delay:
                    time.sleep(0.3)  # let the agent thread run first

        samplers = [RandomUniformSampler(batch_size=1, random_state=0), HaltonSampler(batch_size=1, random_state=1)]
        sched = Sched(samplers, A(2, 0.5, 0.9, random_state=agent_seed), MABCalibrationEnv(2), random_state=agent_seed + 100)
        with contextlib.redirect_stdout(io.StringIO()):
            c = cal.Calibrator(loss_function=MinkowskiLoss(), real_data=np.zeros((2, 1)), model=lambda t, N, s: np.full((N, 1), float(t[0])),
                               parameters_bounds=[[0.0], [1.0]], parameters_precision=[0.125], ensemble_size=1, scheduler=sched, verbose=False, random_state=7, n_jobs=1)
            c.model.__name__ = "m"
            c.calibrate(nb)
        return draws

    try:
        a, b = run(11, True), run(12, True)
    except Exception as e:  # noqa: BLE001
        reraise_if_harness(e)
        return True, f"calibration raised {type(e).__name__}: {e}"
    return a[:1] != b[:1], f"first generator state seen by the agent with agent/scheduler constructor seeds 11/111: {str(a[:1])[:40]}, with 12/112: {str(b[:1])[:40]} (same calibrator seed; must be equal)"


def cases(tier, seed):
    cs = [case_via_calibrator(2 if tier == "quick" else 4, pol) for pol in ("main-first", "agent-first", "alternate", "all")]
    for s in ([1], [2], [3], [1, 1], [2, 1], [1, 2]):
        cs.append(case(s, "script"))
    for s in ([2], [1, 1]):
        cs.append(case(s, "greedy"))
    # the same small scenarios without state pruning: every schedule is a complete path (cross-check of the pruning)
    for s in ([1], [2]):
        cs.append(case(s, "script", prune=False))
    if tier == "thorough":
        cs.append(case([1, 1], "script", prune=False))
        cs.append(case([3], "script", prune=False))
        for s in ([2, 2], [3, 1], [1, 1, 1], [2, 2, 2], [3, 3]):
            cs.append(case(s, "script"))
        for s in ([2, 1], [1, 2], [3], [2, 2], [3, 1], [1, 1, 1]):
            cs.append(case(s, "greedy"))
        cs.append(case([2, 1], "script", prune=False))
    return cs


MANIFEST = {
    "category": "model_checking",
    "text": "Exhaustive interleaving exploration (within the bounds) of the real RLScheduler/CalibrationEnv/agent code on real threads under a baton scheduler whose choice at every queue put/get, session-flag access and thread start/join is made by the explorer, with symbolic per-batch losses: on every complete schedule z3 proves one learn() per agent-chosen batch with that batch's reward and sampler, empty queues and no live agent thread after each session, absence of deadlock and schedule-independence of the sampler sequence. Counterexample schedules are replayed by forcing the same schedule on the real code and by a free-running real-thread run.",
    "note": "Atomicity of queue operations / attribute access assumed (GIL); scripted or greedy agent; <= 2 sessions x 3 batches quick; visited-state pruning keyed on thread observations, queue contents, flag, agent log and data decisions.",
}
