"""C06 — an interrupted checkpoint save is never restored as a silent hybrid."""
from __future__ import annotations

import contextlib
import io
import shutil
import sqlite3 as _sqlite3
import tempfile
import warnings

import numpy as np
import z3

import black_it.calibrator as cal
import black_it.utils.json_pandas_checkpointing as jp
import black_it.utils.sqlite3_checkpointing as sq
from harness.ckpt import NUMERIC, PLAIN, arrays_equal_term, fs_world, make_calibrator, model, state_of, symbolise_history
from harness.common import Case, f
from symx.core import PathAbort, lift
from symx.memfs import Crash, MemFS
from symx.npx import patched
from symx.core import reraise_if_harness  # noqa: E402

LEVEL = "model_checking"
FUNCTIONS = [
    "black_it.utils.json_pandas_checkpointing:save_calibrator_state", "black_it.utils.json_pandas_checkpointing:load_calibrator_state",
    "black_it.calibrator:Calibrator.restore_from_checkpoint", "black_it.calibrator:Calibrator.create_checkpoint",
    "black_it.utils.sqlite3_checkpointing:save_calibrator_state", "black_it.utils.sqlite3_checkpointing:load_calibrator_state",
]
NUMBER_MODEL = "R exact for the history; crash point a symbolic index over the file operations the real save performs"
EXPLANATION = (
    "The real JSON/CSV/HDF5 save runs on the in-memory file system on top of a complete previous checkpoint A (or an empty folder); the "
    "process dies at a symbolic operation index (before the operation, or in the middle of a write: unparseable prefix, or for the CSV a "
    "prefix with fewer rows; HDF5: resized but unwritten / half-written slab). The real restore_from_checkpoint then runs on what is left "
    "and z3 proves: it raises, or every piece of the restored state equals A, or every piece equals B, and the sample counter equals the "
    "array lengths. SQLite: the real sqlite3 library with an exception injected at a symbolic statement index; after the failed save the "
    "real load must return the previous checkpoint."
)
ASSUMPTIONS = [
    "crash states per file: absent / old / empty (truncated) / strict prefix / new; truncated JSON, pickle and HDF5 are unreadable, a truncated CSV parses as fewer complete rows",
    "writes reach the disk in program order (no reordering below the file API)",
    "SQLite part runs the real library on concrete arrays; the failing statement index is the symbolic (forked) variable",
]
OUTSIDE = ["power-loss reordering of writes, torn sqlite pages", "more than one interrupted save in a row"]
REQUIRED_LABELS = ["no_silent_hybrid", "sqlite_previous_checkpoint_survives"]

FOLDER = "/memfs/ckpt"
FILES = ["calibration_params.json", "scheduler_pickled.pickle", "loss_function_pickled.pickle", "calibration_results.csv", "series_samp.h5"]


def bounds(tier):
    return {"quick": "previous checkpoint present (2 rows) or absent; new state 4 rows; every operation index of the save (about 12) x {before, mid-write}; CSV prefix of 0..3 rows; SQLite: every statement index, previous checkpoint present",
            "thorough": "adds 2 parameters / ensemble 2 and a previous checkpoint with 3 rows"}[tier]


def _prefix_state(c, full, r0, batch_idx):
    c.params_samp, c.losses_samp, c.series_samp = full[0][:r0], full[1][:r0], full[2][:r0]
    c.batch_num_samp, c.method_samp, c.n_sampled_params, c.current_batch_index = full[3][:r0], full[4][:r0], r0, batch_idx


def case_json(prev_rows, P, E):
    name = f"json-prev{prev_rows}-P{P}-E{E}"

    def build(ctx):
        c = make_calibrator("rr", folder=None, n_batches=2, P=P, E=E)
        symbolise_history(ctx, c, "h", rows=4)
        return c

    def body(ctx):
        c = build(ctx)
        full = (c.params_samp, c.losses_samp, c.series_samp, c.batch_num_samp, c.method_samp, c.n_sampled_params, c.current_batch_index)
        fs = MemFS()
        with fs_world(fs), warnings.catch_warnings():
            warnings.simplefilter("ignore")
            A = None
            if prev_rows:
                _prefix_state(c, full, prev_rows, 1)
                fs.version = "A"
                c.create_checkpoint(FOLDER)
                A = state_of(c)
            (c.params_samp, c.losses_samp, c.series_samp, c.batch_num_samp, c.method_samp, c.n_sampled_params, c.current_batch_index) = full
            B = state_of(c)
            # dry run on a copy to learn the operation sequence of this save
            dry = fs.snapshot()
            dry.version = "B"
            with fs_world(dry):
                c.create_checkpoint(FOLDER)
            ops = list(dry.ops)
            nops = len(ops)
            # first operation after which calibration_params.json holds the NEW counters (direct write, or rename into place)
            ctx.scratch["json_done"] = next((i + 1 for i, o in enumerate(ops) if o == f"write {FOLDER}/calibration_params.json" or o.endswith(f"-> {FOLDER}/calibration_params.json")), 0)
            crash = ctx.int("crash_op", 0, nops)  # nops = the save completes
            k = int(crash)
            partial = False
            if k < nops and ops[k].startswith(("write", "h5 write", "h5 create")):
                partial = bool(ctx.bool("mid_write"))
            fs.ops = []
            fs.version = "B"
            fs.crash_before = None if (partial or k == nops) else k
            fs.partial_at = k if partial else None
            if partial and ops[k].endswith(".csv"):
                fs.csv_partial_rows = int(ctx.int("csv_rows_surviving", 0, 3))
            try:
                c.create_checkpoint(FOLDER)
                crashed = False
            except Crash:
                crashed = True
            ctx.prove(z3.BoolVal(crashed == (k < nops)), "no_silent_hybrid", "harness: crash injected where requested")
            fs.crash_before = fs.partial_at = None
            # ---- what does a later restore see?
            try:
                r = cal.Calibrator.restore_from_checkpoint(FOLDER, model if P == 1 else __import__("harness.ckpt", fromlist=["model2d"]).model2d)
            except Crash:
                raise
            except Exception as e:  # noqa: BLE001
                reraise_if_harness(e)
                ctx.note("restore_raised")
                ctx.prove(z3.BoolVal(True), "no_silent_hybrid", f"crash at op {k} ({ops[k] if k < nops else 'none'}): restore raised {type(e).__name__}")
                return
            R = state_of(r)

            def equals(S):
                if S is None:
                    return z3.BoolVal(False)
                conds = []
                for key in NUMERIC:
                    t, _ = arrays_equal_term(S[key], R[key])
                    conds.append(t)
                conds.append(z3.BoolVal(all(R[key] == S[key] and type(R[key]) is type(S[key]) for key in PLAIN)))
                return z3.And(*conds)

            consistent = z3.BoolVal(R["n_sampled_params"] == len(R["losses_samp"]) == len(R["params_samp"]) == len(R["series_samp"]) == len(R["batch_num_samp"]) == len(R["method_samp"]))
            where = f"crash at op {k}/{nops} ({ops[k] if k < nops else 'save completed'}{', mid-write' if partial else ''})"
            # the obligation mentions the symbolic crash index so that the known-finding region can be excluded by the solver
            ctx.prove(z3.Or(z3.And(z3.Or(equals(A), equals(B)), consistent), crash.t != k), "no_silent_hybrid",
                      f"{where}: restore succeeded with counter={R['n_sampled_params']} rows(params/losses/series)={len(R['params_samp'])}/{len(R['losses_samp'])}/{len(R['series_samp'])} batch_index={R['current_batch_index']}")
            ctx.sample({"case": name, "crash": where})

    def replay(cex):
        v = cex.values
        return replay_json(prev_rows, P, E, int(v.get("crash_op") or 0), bool(v.get("mid_write")), int(v.get("csv_rows_surviving") or 0))

    return Case(name, body, replay, time_budget=300)


class _Die(BaseException):
    pass


def replay_json(prev_rows, P, E, k, partial, csv_rows):
    """Real files: the k-th mutating file operation of the real save is interrupted (process death simulated by an exception
    raised from the patched operation; a mid-write leaves a real truncated file)."""
    import builtins
    import pathlib

    import h5py
    import pandas as pd

    from harness.ckpt import model2d

    tmp = tempfile.mkdtemp(prefix="verif-c06-")
    try:
        with contextlib.redirect_stdout(io.StringIO()), warnings.catch_warnings():
            warnings.simplefilter("ignore")
            c = make_calibrator("rr", folder=None, n_batches=2, P=P, E=E)
            rng = np.random.default_rng(4)
            E_, N_, D_ = c.series_samp.shape[1:]
            c.params_samp, c.losses_samp, c.series_samp = rng.random((4, P)), rng.random(4), rng.random((4, E_, N_, D_))
            c.batch_num_samp, c.method_samp, c.n_sampled_params = np.array([0, 0, 1, 1]), np.array([0, 0, 1, 2]), 4
            full = (c.params_samp, c.losses_samp, c.series_samp, c.batch_num_samp, c.method_samp, c.n_sampled_params, c.current_batch_index)
            A = None
            if prev_rows:
                _prefix_state(c, full, prev_rows, 1)
                c.create_checkpoint(tmp)
                A = state_of(c)
            (c.params_samp, c.losses_samp, c.series_samp, c.batch_num_samp, c.method_samp, c.n_sampled_params, c.current_batch_index) = full
            B = state_of(c)
            # operation counter over the same mutating operations as the in-memory model
            count = {"n": 0}

            def tick(is_write, path=None, truncate_to=None):
                i = count["n"]
                count["n"] += 1
                if i == k:
                    if partial and is_write and path is not None:
                        return "partial"
                    raise _Die()
                return None

            real_open = pathlib.Path.open
            real_mkdir = pathlib.Path.mkdir

            def p_open(self, mode="r", *a, **kw):
                if "w" in mode:
                    tick(False)  # truncate
                    fh = real_open(self, mode, *a, **kw)
                    real_write = fh.write
                    state = {"first": True}

                    def write(data):
                        if state["first"]:
                            state["first"] = False
                            if tick(True, self) == "partial":
                                real_write(data[: max(1, len(data) // 2)])
                                fh.flush()
                                raise _Die()
                        return real_write(data)

                    try:
                        fh.write = write
                    except AttributeError:
                        # binary buffered writers do not allow attribute assignment: wrap
                        class W:
                            def __init__(s, f_):
                                s.f = f_

                            def write(s, data):
                                return write(data)

                            def __getattr__(s, n):
                                return getattr(s.f, n)

                            def __enter__(s):
                                return s

                            def __exit__(s, *e):
                                s.f.close()
                                return False

                        return W(fh)
                    return fh
                return real_open(self, mode, *a, **kw)

            def p_mkdir(self, *a, **kw):
                tick(False)
                return real_mkdir(self, *a, **kw)

            real_to_csv = pd.DataFrame.to_csv

            def p_to_csv(self, path, *a, **kw):
                tick(False)  # truncate
                open(path, "w").close()
                if tick(True, path) == "partial":
                    text = real_to_csv(self, None, *a, **kw)
                    lines = text.splitlines(keepends=True)
                    with open(path, "w") as fh:
                        fh.writelines(lines[: 1 + csv_rows])
                        fh.write(lines[1 + csv_rows][: max(1, len(lines[1 + csv_rows]) // 2)] if len(lines) > 1 + csv_rows else "")
                    raise _Die()
                return real_to_csv(self, path, *a, **kw)

            real_h5 = h5py.File

            class P_H5:  # noqa: N801
                def __init__(self, path, mode="r"):
                    if mode == "w":
                        tick(False)
                    if mode == "a":
                        tick(False)
                    self.f = real_h5(path, mode)
                    self.mode = mode

                def __enter__(self):
                    return self

                def __exit__(self, *e):
                    self.f.close()
                    return False

                def create_dataset(self, *a, **kw):
                    if tick(True, "h5") == "partial":
                        self.f.close()
                        with open(self.f.filename if hasattr(self.f, "filename") else "", "ab"):
                            pass
                        raise _Die()
                    return self.f.create_dataset(*a, **kw)

                def __getitem__(self, name):
                    ds = self.f[name]
                    if self.mode == "r":
                        return ds
                    outer = self

                    class DS:
                        shape = ds.shape

                        def resize(s, size, axis=None):
                            tick(False)
                            ds.resize(size) if axis is None else ds.resize(size, axis=axis)

                        def __setitem__(s, key, val):
                            if tick(True, "h5") == "partial":
                                h = len(val) // 2
                                ds[key.start : key.start + h] = val[:h]
                                outer.f.flush()
                                raise _Die()
                            ds[key] = val

                    return DS()

            died = False
            with patched(pathlib.Path, open=p_open, mkdir=p_mkdir), patched(pd.DataFrame, to_csv=p_to_csv), patched(jp.h5py, File=P_H5):
                try:
                    c.create_checkpoint(tmp)
                except _Die:
                    died = True
            try:
                r = cal.Calibrator.restore_from_checkpoint(tmp, model if P == 1 else model2d)
            except Exception as e:  # noqa: BLE001
                reraise_if_harness(e)
                return False, f"crash at file operation {k}{' (mid-write)' if partial else ''} (died={died}): restore raised {type(e).__name__} - not a silent hybrid"
            R = state_of(r)

            def same(S):
                if S is None:
                    return False
                for key in NUMERIC:
                    a, b = np.asarray(S[key], dtype=float), np.asarray(R[key], dtype=float)
                    if a.shape != b.shape or not np.array_equal(a, b):
                        return False
                return all(R[key] == S[key] for key in PLAIN)

            consistent = R["n_sampled_params"] == len(R["losses_samp"]) == len(R["params_samp"]) == len(R["series_samp"])
            ok = (same(A) or same(B)) and consistent
            return (not ok), (f"save interrupted at file operation {k}{' (mid-write)' if partial else ''} on top of {'a 2-row checkpoint' if prev_rows else 'an empty folder'}: restore SUCCEEDED with "
                              f"counter={R['n_sampled_params']}, batch index={R['current_batch_index']}, rows params/losses/series={len(R['params_samp'])}/{len(R['losses_samp'])}/{len(R['series_samp'])} "
                              f"(equals previous checkpoint: {same(A)}, equals new state: {same(B)})")
    finally:
        shutil.rmtree(tmp, ignore_errors=True)


# ---------------------------------------------------------------- SQLite
class _Inject(Exception):
    pass


def _sqlite_args(c):
    return (c.param_grid.parameters_bounds, c.param_grid.parameters_precision, c.real_data, c.ensemble_size, c.N, c.D, c.convergence_precision, c.verbose, c.saving_folder,
            c.random_state, c.random_generator.bit_generator.state, "model", c.scheduler, c.loss_function, c.current_batch_index, c.params_samp, c.losses_samp,
            c.series_samp, c.batch_num_samp, c.method_samp)


def _big(args, fill):
    """The same checkpoint with a series array of 8 MB (more than SQLite's default page cache: pages of the new row reach the
    file BEFORE the commit, so the roll-back really has to undo something on disk)."""
    a = list(args)
    rows = max(len(a[16]), 1)
    a[17] = np.random.default_rng(int(fill * 2)).random((rows, 1, 2**20 // rows, 1))  # incompressible: the series column is gzip-compressed
    return tuple(a)


def _run_sqlite(k, interrupt=False, big=False):
    """Save A, then save B with an exception raised at statement k; return (outcome description, ok)."""
    tmp = tempfile.mkdtemp(prefix="verif-c06s-")
    try:
        with contextlib.redirect_stdout(io.StringIO()), warnings.catch_warnings():
            warnings.simplefilter("ignore")
            c = make_calibrator("rr", folder=None, n_batches=1, P=1, E=1)
            argsA = _sqlite_args(c)
            c.calibrate(1)
            argsB = _sqlite_args(c)
            if big:
                argsA, argsB = _big(argsA, 1.5), _big(argsB, 2.5)  # (the loader does not relate the series length to the other columns)
            sq.save_calibrator_state(tmp, *argsA)
            count = {"n": 0, "log": []}

            class Cur:
                def __init__(self, cur_):
                    self.c = cur_

                def _tick(self, what):
                    i = count["n"]
                    count["n"] += 1
                    count["log"].append(what)
                    if i == k:
                        if interrupt:
                            raise KeyboardInterrupt(f"injected interrupt at statement {i}: {what}")
                        raise _sqlite3.OperationalError(f"injected failure at statement {i}: {what}")

                def execute(self, sql, *a):
                    self._tick("execute " + " ".join(sql.split())[:40])
                    return self.c.execute(sql, *a)

                def executescript(self, sql):
                    self._tick("executescript")
                    return self.c.executescript(sql)

                def fetchone(self):
                    return self.c.fetchone()

            class Conn:
                def __init__(self, conn):
                    self.conn = conn

                def cursor(self):
                    return Cur(self.conn.cursor())

                def commit(self):
                    i = count["n"]
                    count["n"] += 1
                    count["log"].append("commit")
                    if i == k:
                        if interrupt:
                            raise KeyboardInterrupt(f"injected interrupt at statement {i}: commit")
                        raise _sqlite3.OperationalError(f"injected failure at statement {i}: commit")
                    return self.conn.commit()

                def rollback(self):
                    return self.conn.rollback()

                def close(self):
                    return self.conn.close()

            class SqliteProxy:
                def __getattr__(self, n):
                    return getattr(_sqlite3, n)

                def connect(self, *a, **kw):
                    return Conn(_sqlite3.connect(*a, **kw))

            failed = None
            with patched(sq, sqlite3=SqliteProxy()):
                try:
                    sq.save_calibrator_state(tmp, *argsB)
                except (_sqlite3.OperationalError, KeyboardInterrupt) as e:
                    failed = f"{type(e).__name__}: {e}"
            nstat = count["n"]
            try:
                back = sq.load_calibrator_state(tmp)
            except BaseException as e:  # noqa: BLE001
                reraise_if_harness(e)
                return nstat, failed, f"load raised {type(e).__name__}: {e}", False
            want = argsA if failed else argsB
            same = back[14] == want[14] and all(np.array_equal(np.asarray(back[i]), np.asarray(want[i])) for i in (15, 16, 17, 18, 19))
            return nstat, failed, f"load returned batch index {back[14]} with {len(back[16])} rows ({'previous' if failed else 'new'} checkpoint expected: batch index {want[14]}, {len(want[16])} rows)", same
    finally:
        shutil.rmtree(tmp, ignore_errors=True)


def case_sqlite():
    def body(ctx):
        nstat, _, _, _ = _run_sqlite(10**6)
        k = ctx.int("fail_statement", 0, nstat)  # nstat = no failure
        kk = int(k)
        # an ordinary error (sqlite3.OperationalError) or the process being interrupted (KeyboardInterrupt: a BaseException)
        intr = bool(ctx.bool("interrupt")) if kk < nstat else False
        big = bool(ctx.bool("big_payload"))  # 8 MB series array: the transaction spills to the database file before the commit
        n, failed, info, ok = _run_sqlite(kk if kk < nstat else 10**6, intr, big)
        ctx.prove(z3.BoolVal((failed is not None) == (kk < nstat)), "sqlite_previous_checkpoint_survives", "harness: failure injected where requested")
        ctx.prove(z3.Or(z3.BoolVal(ok), k.t != kk), "sqlite_previous_checkpoint_survives", f"failure at statement {kk}/{nstat} ({failed}): {info}")
        ctx.sample({"fail_statement": kk, "interrupt": intr, "big_payload": big, "outcome": info})

    def replay(cex):
        kk = int(cex.values.get("fail_statement") or 0)
        big = bool(cex.values.get("big_payload"))
        n, failed, info, ok = _run_sqlite(kk, bool(cex.values.get("interrupt")), big)
        return (not ok), f"SQLite save{' of an 8 MB checkpoint' if big else ''} failing at statement {kk} ({failed}): {info}"

    return Case("sqlite-fault-index", body, replay, time_budget=200)


def _region_json_nonatomic(ctx):
    # the five-file save is not atomic: once calibration_params.json holds the new counters, a later crash can leave a mixture
    return ctx.inputs["crash_op"] >= ctx.scratch["json_done"]


REGIONS = {"json-five-file-save-not-atomic": ("no_silent_hybrid", _region_json_nonatomic)}


def cases(tier, seed):
    cs = [case_json(2, 1, 1), case_json(0, 1, 1), case_sqlite()]
    if tier == "thorough":
        cs += [case_json(3, 2, 2), case_json(2, 1, 2), case_json(1, 1, 1), case_json(0, 2, 2), case_json(3, 1, 1)]
    return cs


MANIFEST = {
    "category": "model_checking",
    "text": "Crash-point exploration of the real checkpoint writer on an in-memory file system: the operation index at which the process dies (and whether a write is cut in the middle, with the number of surviving CSV rows) is symbolic, the history is symbolic; after each crash the real restore runs and z3 proves 'raises, or equals the previous checkpoint entirely, or equals the new one entirely, with counters matching the arrays'. SQLite: real library, exception injected at a symbolic statement index, previous checkpoint must stay loadable. Counterexamples are replayed by interrupting the real file operations.",
    "note": "File-level crash model (program-order writes; truncated JSON/pickle/HDF5 unreadable, truncated CSV = fewer rows); the non-atomic five-file JSON save is a listed known finding by crash region; SQLite part executes concretely per statement index.",
}
