"""C09 — samplers are scheduled exactly as the chosen scheduler prescribes."""
from __future__ import annotations

import pickle
import queue

import numpy as np
import z3

import black_it.calibrator as cal
import black_it.schedulers.rl.rl_scheduler as rls
import black_it.schedulers.round_robin as rr
from black_it.samplers.base import BaseSampler
from black_it.samplers.halton import HaltonSampler
from black_it.samplers.random_uniform import RandomUniformSampler
from black_it.schedulers.rl.agents.epsilon_greedy import MABEpsilonGreedy
from black_it.schedulers.rl.envs.mab import MABCalibrationEnv
from harness.calib import FreeLoss, ScriptedSampler, make_sampler_class, model_uf, world
from harness.common import Case, f, inject
from symx.core import Inconclusive  # noqa: E402
from symx.core import Sym, lift
from symx.core import reraise_if_harness  # noqa: E402
from harness.rlintro import qlen, rl_queues  # noqa: E402

LEVEL = "model_checking"
FUNCTIONS = [
    "black_it.schedulers.round_robin:RoundRobinScheduler.get_next_sampler",
    "black_it.schedulers.round_robin:RoundRobinScheduler.update",
    "black_it.calibrator:Calibrator.calibrate",
    "black_it.calibrator:Calibrator.__validate_samplers_and_scheduler_constructor_args",
    "black_it.schedulers.rl.rl_scheduler:RLScheduler.__init__",
    "black_it.schedulers.rl.rl_scheduler:RLScheduler._add_or_get_bootstrap_sampler",
    "black_it.schedulers.rl.rl_scheduler:RLScheduler.get_next_sampler",
    "black_it.schedulers.rl.rl_scheduler:RLScheduler.update",
]
NUMBER_MODEL = "Z/R exact; the round-robin counter is an unbounded symbolic Int"
EXPLANATION = (
    "Round-robin: one real calibrate(1) step from an arbitrary pre-state (batch counter b a free Int >= 0 in both the scheduler and the "
    "calibrator); z3 proves the sampler invoked is samplers[b mod n], rows added = its batch size, labels and both counters advance — an "
    "inductive step that covers any number of batches/calls; the base case and pickle round-trips are run concretely. RL scheduler: the real "
    "get_next_sampler/update driven with symbolic agent actions (free Ints in range) and free losses for every Halton position/absence. "
    "Constructor: the four argument combinations with symbolic presence flags."
)
ASSUMPTIONS = [
    "representation invariant for the inductive step: scheduler._batch_id == calibrator.current_batch_index == b (true for a round-robin scheduler owned by the calibrator since batch 0; checked concretely in the base cases)",
    "pickle round-trip preserves attribute values of picklable objects (exercised concretely with the real pickle)",
    "RL part drives the scheduler's methods directly with the action queue pre-filled (thread interleavings are C10's subject)",
]
OUTSIDE = ["more than 6 samplers", "RL thread timing (C10)"]
REQUIRED_LABELS = ["rr_sampler_is_b_mod_n", "rr_rows_and_counters", "rr_labels", "rr_multicall_restore", "rl_bootstrap_first", "rl_follows_agent", "ctor_exactly_one"]


def bounds(tier):
    return {"quick": "round-robin n=1..6 samplers (batch sizes 1..3), symbolic counter b>=0, one inductive batch; concrete base cases with splits+pickle up to 6 batches; RL: 1..3 samplers, Halton at every position or absent, 3 batches of symbolic actions",
            "thorough": "same with RL up to 4 samplers and 4 batches, base cases up to 9 batches"}[tier]


def _classes(n):
    return [make_sampler_class(f"Samp{i}") for i in range(n)]


def case_rr_step(n):
    def body(ctx):
        with world(argsort_identity=True):
            sizes = [(i % 3) + 1 for i in range(n)]
            samplers = [cls(sizes[i], ctx, tag=f"S{i}") for i, cls in enumerate(_classes(n))]
            c = cal.Calibrator(loss_function=FreeLoss(ctx, consistent=False), real_data=np.zeros((2, 1)), model=model_uf(1, 2, 1),
                               parameters_bounds=[[0.0], [1.0]], parameters_precision=[0.25], ensemble_size=1, samplers=samplers,
                               verbose=False, random_state=ctx.int("seed", 0), n_jobs=1)
            b = ctx.int("b", 0)
            injected = True
            try:
                inject(c.scheduler, "_batch_id", b)
                inject(c, "current_batch_index", b)
            except Inconclusive:
                # the counter is no longer kept where the inductive step writes it: bounded substitute - the state after b real
                # batches for every b <= 2n (forked), reached through calibrate() itself
                injected = False
                bc = int(ctx.int("b_reached", 0, 2 * n))
                ctx.solver.add(b.t == bc)
                if bc:
                    c.calibrate(bc)
                for s in samplers:
                    s.calls = 0
                ctx.note("inductive_step_replaced_by_bounded_history")
            r0 = len(c.params_samp)
            c.calibrate(1)
            used = [i for i, s in enumerate(samplers) if s.calls > 0]
            ctx.prove(z3.BoolVal(len(used) == 1 and sum(s.calls for s in samplers) == 1), "rr_sampler_is_b_mod_n", "exactly one sampler invoked once")
            i = used[0]
            ctx.prove(b.t % n == i, "rr_sampler_is_b_mod_n", f"n={n}: sampler {i} was used")
            ctx.prove(z3.BoolVal(len(c.params_samp) == r0 + sizes[i] and c.n_sampled_params == r0 + sizes[i] and len(c.method_samp) == r0 + sizes[i]
                                 and len(c.batch_num_samp) == r0 + sizes[i] and len(c.losses_samp) == r0 + sizes[i]), "rr_rows_and_counters", "rows added = batch size")
            ctx.prove(lift(c.current_batch_index) == b.t + 1, "rr_rows_and_counters", "batch counter advances by one")
            if injected:
                ctx.prove(lift(c.scheduler._batch_id) == b.t + 1, "rr_rows_and_counters", "scheduler position advances by one")
            ctx.prove(z3.And(*[lift(x) == b.t for x in c.batch_num_samp[r0:]], *[lift(x) == c.samplers_id_table[type(samplers[i]).__name__] for x in c.method_samp[r0:]]),
                      "rr_labels", "batch and sampler labels")
            ctx.sample({"n": n, "used": i})

    def replay(cex):
        b = int(cex.values.get("b") or 0)
        return _rr_concrete(n, [b + 1], b_check=b)

    return Case(f"rr-step-n{n}", body, replay)


class _Rec(BaseSampler):
    log = None

    def sample_batch(self, batch_size, search_space, existing_points, existing_losses):
        type(self).log.append(self.idx)
        k = len(existing_points)
        return np.array([[0.25 * ((k + r) % 5)] for r in range(batch_size)])


class _InjectedFault(Exception):
    pass


def _rr_concrete(n, splits, restore_at=(), b_check=None, fault_at=()):
    """Real calibrator, real pickle: run `splits` calibrate calls (optionally pickling the scheduler in between).
    fault_at: life-long batch indices in which the model raises once; the aborted batch is then requested again (the batch
    counted 'over the whole life' of the calibration is the one that completes)."""
    import copy

    from black_it.loss_functions.minkowski import MinkowskiLoss

    log = []
    classes = [type(f"Rec{i}", (_Rec,), {"log": log, "idx": i}) for i in range(n)]
    globals().update({cls.__name__: cls for cls in classes})  # picklable by reference
    for cls in classes:
        cls.__module__ = __name__
    sizes = [(i % 3) + 1 for i in range(n)]
    samplers = [cls(sizes[i], max_deduplication_passes=0) for i, cls in enumerate(classes)]

    pending = set(fault_at)
    holder = {}

    def model(theta, N, seed):
        b = holder["c"].current_batch_index
        if b in pending:
            pending.discard(b)
            raise _InjectedFault(f"model fails once in batch {b}")
        return np.full((N, 1), float(theta[0]))

    import contextlib
    import io
    import shutil
    import tempfile

    model.__name__ = "model"
    tmp = tempfile.mkdtemp(prefix="verif-c09-") if restore_at else None
    with contextlib.redirect_stdout(io.StringIO()):
        c = cal.Calibrator(loss_function=MinkowskiLoss(), real_data=np.zeros((3, 1)), model=model, parameters_bounds=[[0.0], [1.0]],
                           parameters_precision=[0.25], ensemble_size=1, samplers=samplers, verbose=False, saving_folder=tmp, random_state=0, n_jobs=1)
    total = 0
    msgs = []
    bad = False
    try:
        for k, nb in enumerate(splits):
            if k in restore_at:
                # a real stop/restore cycle: the object is thrown away and rebuilt from the checkpoint calibrate() wrote
                with contextlib.redirect_stdout(io.StringIO()):
                    c = cal.Calibrator.restore_from_checkpoint(tmp, model)
                for s in c.scheduler.samplers:
                    type(s).log = log
            holder["c"] = c
            target = c.current_batch_index + nb
            while c.current_batch_index < target:
                try:
                    with contextlib.redirect_stdout(io.StringIO()):
                        c.calibrate(target - c.current_batch_index)
                except _InjectedFault:
                    log.pop()  # the sampler call of the aborted batch; the batch is requested again
            total += nb
    finally:
        if tmp:
            shutil.rmtree(tmp, ignore_errors=True)
    exp = [i % n for i in range(total)]
    if log != exp:
        bad = True
        msgs.append(f"sampler order {log} expected {exp}")
    exp_rows = sum(sizes[i % n] for i in range(total))
    exp_batch = [bi for bi in range(total) for _ in range(sizes[bi % n])]
    if len(c.params_samp) != exp_rows or list(c.batch_num_samp) != exp_batch:
        bad = True
        msgs.append(f"rows {len(c.params_samp)} expected {exp_rows}; batch labels {list(c.batch_num_samp)}")
    exp_m = [c.samplers_id_table[classes[bi % n].__name__] for bi in range(total) for _ in range(sizes[bi % n])]
    if list(c.method_samp) != exp_m:
        bad = True
        msgs.append(f"method labels {list(c.method_samp)} expected {exp_m}")
    return bad, f"n={n} splits={splits} restore_at={list(restore_at)}" + (f" model fails once in batches {sorted(fault_at)}, batch retried" if fault_at else "") + ": " + ("; ".join(msgs) or "as prescribed")


def case_rr_multicall(n, splits, restore_at, fault_at=()):
    def body(ctx):
        bad, info = _rr_concrete(n, splits, restore_at, fault_at=fault_at)
        # concrete base case of the induction (no symbolic input): decided by evaluation, recorded as such
        ctx.prove(z3.BoolVal(not bad), "rr_multicall_restore", info)

    def replay(cex):
        return _rr_concrete(n, splits, restore_at, fault_at=fault_at)

    return Case(f"rr-multi-n{n}-{'_'.join(map(str, splits))}-r{'_'.join(map(str, restore_at))}" + (f"-f{'_'.join(map(str, fault_at))}" if fault_at else ""), body, replay)


def case_rl(layout, nbatches):
    """layout: tuple of 'H' (Halton) / 'U' (other) giving the supplied samplers."""
    name = f"rl-{''.join(layout) or 'empty'}-{nbatches}"

    def build(ctx_or_none):
        samplers = []
        for k, ch in enumerate(layout):
            samplers.append(HaltonSampler(batch_size=1, random_state=0) if ch == "H" else RandomUniformSampler(batch_size=2, random_state=0))
        n_eff = len(layout) + (0 if "H" in layout else 1)
        agent = MABEpsilonGreedy(n_eff, 0.1, 0.1, random_state=0)
        env = MABCalibrationEnv(n_eff)
        return samplers, agent, env, n_eff

    def check(sched, supplied, n_eff, actions, losses, prove):
        # structure: only supplied samplers (+ one added Halton iff none supplied)
        ids = [id(s) for s in sched.samplers]
        ok_struct = all(id(s) in ids for s in supplied) and len(sched.samplers) == n_eff
        extra = [s for s in sched.samplers if id(s) not in [id(x) for x in supplied]]
        ok_struct = ok_struct and (len(extra) == (0 if "H" in layout else 1)) and all(type(s) is HaltonSampler for s in extra)
        prove(ok_struct, "rl_bootstrap_first", "only supplied samplers (+ an added Halton iff absent)")
        first = sched.get_next_sampler()
        prove(type(first) is HaltonSampler and any(first is s for s in sched.samplers), "rl_bootstrap_first", f"first batch by {type(first).__name__}")
        sched.update(0, np.array([[0.5]]), [losses[0]], None)
        for t in range(1, nbatches):
            rl_queues(sched)[0].put(actions[t])
            got = sched.get_next_sampler()
            yield t, got
            sched.update(t, np.array([[0.5]]), [losses[t]], None)

    def body(ctx):
        with world():
            samplers, agent, env, n_eff = build(ctx)
            sched = rls.RLScheduler(samplers, agent, env, random_state=0)
            actions = [None] + [ctx.int(f"a{t}", 0, n_eff - 1) for t in range(1, nbatches)]
            losses = [ctx.real(f"loss{t}", 0) for t in range(nbatches)]

            def prove(c, label, detail):
                ctx.prove(z3.BoolVal(bool(c)), label, detail)

            for t, got in check(sched, samplers, n_eff, actions, losses, prove):
                idx = [k for k, s in enumerate(sched.samplers) if s is got]
                ctx.prove(z3.BoolVal(len(idx) == 1), "rl_follows_agent", "returned object is one of the scheduler's samplers")
                ctx.prove(actions[t].t == idx[0], "rl_follows_agent", f"batch {t}: sampler index {idx[0]}")
            ctx.prove(z3.BoolVal(qlen(rl_queues(sched)[0]) == 0), "rl_follows_agent", "every action consumed")

    def replay(cex):
        samplers, agent, env, n_eff = build(None)
        sched = rls.RLScheduler(samplers, agent, env, random_state=0)
        actions = [None] + [int(cex.values.get(f"a{t}") or 0) for t in range(1, nbatches)]
        losses = [float(f(cex.values.get(f"loss{t}", 1))) for t in range(nbatches)]
        bad = []

        def prove(c, label, detail):
            if not c:
                bad.append(detail)

        try:
            for t, got in check(sched, samplers, n_eff, actions, losses, prove):
                if got is not sched.samplers[actions[t]]:
                    bad.append(f"batch {t}: agent chose {actions[t]} but scheduler returned sampler {[k for k, s in enumerate(sched.samplers) if s is got]}")
        except Exception as e:  # noqa: BLE001
            reraise_if_harness(e)
            bad.append(f"raised {type(e).__name__}: {e}")
        return bool(bad), f"layout={layout} actions={actions[1:]} losses={losses}: " + ("; ".join(bad) or "as prescribed")

    return Case(name, body, replay)


def case_ctor():
    def mk(with_samplers, with_sched):
        s = [RandomUniformSampler(batch_size=1)] if with_samplers else None
        sch = rr.RoundRobinScheduler([RandomUniformSampler(batch_size=1)]) if with_sched else None

        def model(theta, N, seed):
            return np.zeros((N, 1))

        from black_it.loss_functions.minkowski import MinkowskiLoss

        return cal.Calibrator(loss_function=MinkowskiLoss(), real_data=np.zeros((3, 1)), model=model, parameters_bounds=[[0.0], [1.0]],
                              parameters_precision=[0.25], ensemble_size=1, samplers=s, scheduler=sch, verbose=False, random_state=0, n_jobs=1)

    def outcome(ws, wsch):
        try:
            c = mk(ws, wsch)
            return "accepted", c
        except ValueError:
            return "ValueError", None
        except Exception as e:  # noqa: BLE001
            reraise_if_harness(e)
            return type(e).__name__, None

    def body(ctx):
        ws, wsch = ctx.bool("samplers_given"), ctx.bool("scheduler_given")
        a, b = bool(ws), bool(wsch)
        out, c = outcome(a, b)
        exp = "accepted" if a != b else "ValueError"
        ctx.prove(z3.BoolVal(out == exp), "ctor_exactly_one", f"samplers_given={a} scheduler_given={b}: {out}, expected {exp}")
        if c is not None and a and not b:
            ctx.prove(z3.BoolVal(isinstance(c.scheduler, rr.RoundRobinScheduler)), "ctor_exactly_one", "a sampler list is wrapped in a round-robin scheduler")

    def replay(cex):
        a, b = bool(cex.values.get("samplers_given")), bool(cex.values.get("scheduler_given"))
        out, _ = outcome(a, b)
        exp = "accepted" if a != b else "ValueError"
        return out != exp, f"Calibrator(samplers {'given' if a else 'None'}, scheduler {'given' if b else 'None'}) -> {out}; expected {exp}"

    return Case("ctor", body, replay)


def cases(tier, seed):
    cs = [case_ctor()]
    for n in range(1, 7):
        cs.append(case_rr_step(n))
    multi = [(1, [2, 1], ()), (2, [1, 2, 2], (1,)), (3, [2, 2, 2], (1, 2)), (3, [1, 1, 1, 1], (2,)), (2, [3], ()), (4, [1, 4, 1], (1, 2))]
    if tier == "thorough":
        multi += [(5, [3, 3, 3], (1, 2)), (6, [7, 2], (1,)), (2, [1] * 6, (1, 2, 3, 4, 5))]
    for n, sp, ra in multi:
        cs.append(case_rr_multicall(n, sp, ra))
    # a batch aborted by an exception of the model and requested again: the batch that completes is still batch i
    faulty = [(2, [3], (), (1,)), (3, [2, 3], (1,), (0, 3)), (3, [4], (), (2,))]
    if tier == "thorough":
        faulty += [(4, [3, 3], (1,), (1, 4, 5)), (2, [5], (), (0, 1, 2, 3, 4))]
    for n, sp, ra, fa in faulty:
        cs.append(case_rr_multicall(n, sp, ra, fa))
    layouts = [("H",), ("U",), ("U", "H"), ("H", "U"), ("U", "U"), ("U", "H", "U"), ("U", "U", "U")]
    nb = 3
    if tier == "thorough":
        layouts += [("U", "U", "H", "U"), ("U", "U", "U", "U"), ("H", "U", "U", "U")]
        nb = 4
    for lay in layouts:
        cs.append(case_rl(lay, nb))
    return cs


MANIFEST = {
    "category": "model_checking",
    "text": "Inductive symbolic step of the real round-robin scheduling inside calibrate(): the batch counter is an unbounded symbolic Int and z3 proves the sampler invoked is samplers[b mod n] with its batch size, labels and counters (covers any batch count / split); concrete base cases with real pickle round-trips between calibrate() calls; the RL scheduler's get_next_sampler/update executed with symbolic agent actions and losses for every Halton position; the constructor's exactly-one-of rule over symbolic presence flags.",
    "note": "Invariant _batch_id == current_batch_index assumed for the inductive step (checked in base cases); RL part drives the methods with a pre-filled queue (no threads; interleavings are C10); <= 6 samplers.",
}
