"""C15 — search-space specifications are validated and discretised as documented."""
from __future__ import annotations

import itertools
from fractions import Fraction

import numpy as np
import z3

import black_it.search_space as ss
from harness.common import Case, f
from symx.core import Sym, lift
from symx.npx import patched

LEVEL = "other"
FUNCTIONS = ["black_it.search_space:SearchSpace.__init__", "black_it.search_space:SearchSpace._check_bounds"]
NUMBER_MODEL = "R (exact reals); np.arange modelled as length=ceil((stop-start)/step), element k = start + k*step"
EXPLANATION = (
    "The real SearchSpace constructor is executed on lists whose shapes are enumerated (container lengths 0..3) and whose "
    "every element is a z3 Real. On each path z3 proves that the outcome (exception class + payload, or the grids/dims/size) "
    "equals an independently written decision list / grid characterisation evaluated as a z3 term over the same inputs."
)
ASSUMPTIONS = [
    "np.arange(start, stop, step) has ceil((stop-start)/step) elements start+k*step (documented numpy semantics; float end-point rounding of arange itself is outside the claim)",
    "precision > 0 for the grid clauses (negative precisions are neither demanded nor forbidden by the property)",
    "grid length bounded (<= 4 quick, <= 7 thorough) by assuming (upper-lower)/precision below the bound",
]
OUTSIDE = ["more than 3 parameters", "grid lengths beyond the bound", "IEEE rounding inside np.arange"]
REQUIRED_LABELS = ["outcome_class", "payload", "grid", "space_size"]

TOL = Fraction(1, 10**7)
# the code adds the python float 0.0000001, i.e. this exact rational:
TOLF = Fraction(0.0000001)

CLASSES = ["BoundsNotOfSizeTwoError", "BoundsOfDifferentLengthError", "BadPrecisionLengthError",
           "SameLowerAndUpperBoundError", "LowerBoundGreaterThanUpperBoundError", "PrecisionZeroError",
           "PrecisionGreaterThanBoundsRangeError", "OK"]
CID = {c: i for i, c in enumerate(CLASSES)}


def bounds(tier):
    return {"quick": "len(bounds) in 0..3; len(lower),len(upper),len(precision) in 0..3 (all 64 combos); every element a free Real; grids of length <= 4",
            "thorough": "same shapes; grids of length <= 12 (<= 4 per axis with three parameters)"}[tier]


def ref_concrete(bounds_, prec):
    """Independent reference on concrete inputs: ('Class', payload...) or ('OK', grids)."""
    if len(bounds_) != 2:
        return ("BoundsNotOfSizeTwoError", len(bounds_))
    lo, hi = bounds_
    if len(lo) != len(hi):
        return ("BoundsOfDifferentLengthError", len(lo), len(hi))
    if len(prec) != len(lo):
        return ("BadPrecisionLengthError", len(prec), len(lo))
    for i in range(len(lo)):
        l, u, p = Fraction(lo[i]), Fraction(hi[i]), Fraction(prec[i])
        if l == u:
            return ("SameLowerAndUpperBoundError", i, lo[i])
        if l > u:
            return ("LowerBoundGreaterThanUpperBoundError", i, lo[i], hi[i])
        if p == 0:
            return ("PrecisionZeroError", i)
        if p > u - l:
            return ("PrecisionGreaterThanBoundsRangeError", i, lo[i], hi[i], prec[i])
    return ("OK",)


def _outcome(fn):
    try:
        obj = fn()
        return ("OK", obj)
    except ss.SearchSpaceError as e:
        return (type(e).__name__, e)


def _payload(name, e):
    if name == "BoundsNotOfSizeTwoError":
        return [e.count_bounds_subarrays]
    if name == "BoundsOfDifferentLengthError":
        return [e.lower_bounds_length, e.upper_bounds_length]
    if name == "BadPrecisionLengthError":
        return [e.precisions_length, e.bounds_length]
    if name == "SameLowerAndUpperBoundError":
        return [e.param_index, e.bound_value]
    if name == "LowerBoundGreaterThanUpperBoundError":
        return [e.param_index, e.lower_bound, e.upper_bound]
    if name == "PrecisionZeroError":
        return [e.param_index]
    if name == "PrecisionGreaterThanBoundsRangeError":
        return [e.param_index, e.lower_bound, e.upper_bound, e.precision]
    return []


def case_shape(nb, nl, nu, npr, maxlen):
    def build(ctx):
        if nb == 2:
            lo = [ctx.real(f"lo{i}") for i in range(nl)]
            hi = [ctx.real(f"hi{i}") for i in range(nu)]
            b = [lo, hi]
        else:
            b = [[ctx.real(f"b{k}_0")] for k in range(nb)]
            lo = hi = None
        pr = [ctx.real(f"p{i}") for i in range(npr)]
        return b, lo, hi, pr

    def body(ctx):
        b, lo, hi, pr = build(ctx)
        wellshaped = nb == 2 and nl == nu == npr
        if wellshaped:
            for i in range(nl):
                # keep grids small (bound) without excluding any error class
                ctx.assume(((hi[i] - lo[i] + TOLF) <= pr[i] * maxlen) | (pr[i] <= 0) | (hi[i] <= lo[i]))
        with patched(ss):
            name, obj = _outcome(lambda: ss.SearchSpace(b, pr, verbose=False))
        # ---- reference decision list as a z3 term over the same inputs
        if nb != 2:
            exp_cls, exp_payload = z3.IntVal(CID["BoundsNotOfSizeTwoError"]), [nb]
        elif nl != nu:
            exp_cls, exp_payload = z3.IntVal(CID["BoundsOfDifferentLengthError"]), [nl, nu]
        elif npr != nl:
            exp_cls, exp_payload = z3.IntVal(CID["BadPrecisionLengthError"]), [npr, nl]
        else:
            exp_cls = z3.IntVal(CID["OK"])
            exp_idx = z3.IntVal(-1)
            for i in reversed(range(nl)):
                l, u, p = lo[i].t, hi[i].t, pr[i].t
                ci = z3.If(l == u, CID["SameLowerAndUpperBoundError"],
                           z3.If(l > u, CID["LowerBoundGreaterThanUpperBoundError"],
                                 z3.If(p == 0, CID["PrecisionZeroError"],
                                       z3.If(p > u - l, CID["PrecisionGreaterThanBoundsRangeError"], -1))))
                exp_cls = z3.If(ci >= 0, ci, exp_cls)
                exp_idx = z3.If(ci >= 0, i, exp_idx)
            exp_payload = None
        ctx.prove(exp_cls == CID[name], "outcome_class", f"shape=({nb},{nl},{nu},{npr}) code raised/returned {name}")
        ctx.sample({"shape": [nb, nl, nu, npr], "outcome": name})
        if name != "OK":
            got = _payload(name, obj)
            if exp_payload is not None:
                ctx.prove(z3.And(*[lift(g) == lift(e) for g, e in zip(got, exp_payload)]) if len(got) == len(exp_payload) else z3.BoolVal(False),
                          "payload", f"{name} payload")
            else:
                i = got[0]
                conds = [exp_idx == i]
                if name == "SameLowerAndUpperBoundError":
                    conds.append(lift(got[1]) == lo[i].t)
                elif name == "LowerBoundGreaterThanUpperBoundError":
                    conds += [lift(got[1]) == lo[i].t, lift(got[2]) == hi[i].t]
                elif name == "PrecisionGreaterThanBoundsRangeError":
                    conds += [lift(got[1]) == lo[i].t, lift(got[2]) == hi[i].t, lift(got[3]) == pr[i].t]
                ctx.prove(z3.And(*conds), "payload", f"{name} payload (index {i})")
                ctx.prove(z3.BoolVal(isinstance(obj, ValueError) and isinstance(obj, ss.SearchSpaceError)), "payload", "is a SearchSpaceError/ValueError")
            return
        # ---- well-formed: grids, dims, size
        sp = obj
        ctx.prove(z3.BoolVal(sp.dims == nl and len(sp.param_grid) == nl), "grid", "dims / number of grids")
        size = 1
        for i in range(nl):
            g = sp.param_grid[i]
            n = len(g)
            size *= n
            if bool(pr[i] < 0):
                ctx.note("negative_precision_paths")
                continue
            conds = [z3.BoolVal(n >= 1)]
            for k in range(n):
                conds.append(lift(g[k]) == lo[i].t + k * pr[i].t)
            last = lo[i].t + (n - 1) * pr[i].t
            stop = hi[i].t + lift(TOLF)
            conds.append(last < stop)           # never beyond upper bound (+1e-7 tolerance)
            conds.append(last + pr[i].t >= stop)  # and no further step would fit
            ctx.prove(z3.And(*conds), "grid", f"grid {i} has {n} points")
            # the bound itself when the range is an exact multiple of the precision
            m = z3.Int(f"m{i}")
            ctx.prove(z3.Implies(z3.And(m >= 1, hi[i].t - lo[i].t == m * pr[i].t, pr[i].t > lift(TOLF)), last == hi[i].t), "grid", f"grid {i} ends at the bound when range is a multiple")
        ctx.prove(z3.BoolVal(sp.space_size == size), "space_size", f"space_size={sp.space_size} product={size}")
        ctx.prove(z3.And(*[z3.And(lift(sp.parameters_bounds[0][i]) == lo[i].t, lift(sp.parameters_bounds[1][i]) == hi[i].t,
                                  lift(sp.parameters_precision[i]) == pr[i].t) for i in range(nl)]) if nl else z3.BoolVal(True), "space_size", "stored bounds/precision")

    def replay(cex):
        v = cex.values
        if nb == 2:
            b = [[f(v.get(f"lo{i}")) for i in range(nl)], [f(v.get(f"hi{i}")) for i in range(nu)]]
        else:
            b = [[f(v.get(f"b{k}_0"))] for k in range(nb)]
        pr = [f(v.get(f"p{i}")) for i in range(npr)]
        b = [[float(x) for x in r] for r in b]
        pr = [float(x) for x in pr]
        exp = ref_concrete(b, pr)
        name, obj = _outcome(lambda: ss.SearchSpace(b, pr, verbose=False))
        info = f"SearchSpace({b}, {pr}) -> {name}; reference -> {exp[0]}"
        if name != exp[0]:
            return True, info
        if name != "OK":
            got = _payload(name, obj)
            if list(got) != list(exp[1:]):
                return True, info + f" payload {got} vs {list(exp[1:])}"
            return False, info
        size = 1
        for i in range(nl):
            g = obj.param_grid[i]
            size *= len(g)
            if pr[i] <= 0:
                continue
            l, u, p = Fraction(b[0][i]), Fraction(b[1][i]), Fraction(pr[i])
            K = int((u + TOLF - l) / p)
            if l + K * p >= u + TOLF:
                K -= 1
            if len(g) != K + 1:
                # allow numpy's own float rounding of the arange length only within 1e-9 relative of the boundary
                edge = abs((u + TOLF - l) / p - round((u + TOLF - l) / p)) < Fraction(1, 10**9)
                if not edge:
                    return True, info + f" grid {i} has {len(g)} points, expected {K + 1}"
            for k in range(len(g)):
                if abs(Fraction(float(g[k])) - (l + k * p)) > abs(l + k * p) / 2**40 + Fraction(1, 2**60):
                    return True, info + f" grid {i}[{k}]={g[k]!r} expected {float(l + k * p)!r}"
        if obj.space_size != size or obj.dims != nl:
            return True, info + f" space_size={obj.space_size} expected {size}, dims={obj.dims}"
        return False, info

    return Case(f"shape-{nb}-{nl}-{nu}-{npr}", body, replay)


def cases(tier, seed):
    maxlen = 4 if tier == "quick" else 12
    cs = []
    for nb in (0, 1, 3):
        cs.append(case_shape(nb, 1, 1, 1, maxlen))
    for nl, nu, npr in itertools.product(range(4), repeat=3):
        if tier == "quick" and nl == nu == npr == 3:
            cs.append(case_shape(2, nl, nu, npr, 3))
            continue
        cs.append(case_shape(2, nl, nu, npr, maxlen if nl < 3 else min(maxlen, 4)))
    return cs


MANIFEST = {
    "category": "other",
    "text": "Bounded symbolic verification of the real SearchSpace constructor: list shapes are enumerated (0..3), every number is a free z3 Real, and on every path the solver proves the raised class, its payload and the check order equal an independent decision list, and for well-formed input that each grid is lo+k*p up to the last step below upper+1e-7 (the bound itself for exact multiples), dims and space_size=product. Precedence between simultaneous errors and all sign/scale combinations are covered by the solver, not by a value lattice.",
    "note": "np.arange is modelled (ceil length, start+k*step) in exact reals; float end-point rounding inside numpy's arange and more than 3 parameters are outside the claim; z3 trusted.",
}
