"""C07 — each built-in loss computes its published definition (independent reference terms over the same UFs)."""
from __future__ import annotations

import itertools
import math
import warnings
from collections import Counter
from fractions import Fraction

import numpy as np
import z3

from black_it.loss_functions.fourier import FourierLoss, gaussian_low_pass_filter, ideal_low_pass_filter
from black_it.loss_functions.gsl_div import GslDivLoss
from black_it.loss_functions.likelihood import LikelihoodLoss
from black_it.loss_functions.minkowski import MinkowskiLoss
from black_it.loss_functions.msm import MethodOfMomentsLoss
from harness.common import Case, f
from harness.losses import per_series_filter, reducing_filter, AckFun, SymC, loss_world
from symx.core import UF_EXP, UF_LOG, UF_POW, UF_SQRT, Sym, canon, is_sym, lift
from symx.core import reraise_if_harness  # noqa: E402

LEVEL = "other"
FUNCTIONS = [
    "black_it.loss_functions.base:BaseLoss.compute_loss", "black_it.loss_functions.base:BaseLoss._filter_data",
    "black_it.loss_functions.minkowski:MinkowskiLoss.__init__", "black_it.loss_functions.minkowski:MinkowskiLoss.compute_loss_1d",
    "black_it.loss_functions.msm:MethodOfMomentsLoss.__init__", "black_it.loss_functions.msm:MethodOfMomentsLoss.compute_loss_1d",
    "black_it.loss_functions.fourier:FourierLoss.compute_loss_1d", "black_it.loss_functions.fourier:ideal_low_pass_filter",
    "black_it.loss_functions.fourier:gaussian_low_pass_filter",
    "black_it.loss_functions.gsl_div:GslDivLoss.compute_loss_1d", "black_it.loss_functions.gsl_div:GslDivLoss.gsl_div_1d_1_sample",
    "black_it.loss_functions.gsl_div:GslDivLoss.discretize", "black_it.loss_functions.gsl_div:GslDivLoss.get_words",
    "black_it.loss_functions.gsl_div:GslDivLoss.get_words_est_prob", "black_it.loss_functions.gsl_div:GslDivLoss.get_sh_entr",
    "black_it.loss_functions.likelihood:LikelihoodLoss.compute_loss", "black_it.loss_functions.likelihood:LikelihoodLoss._check_bandwidth",
    "black_it.loss_functions.likelihood:kernel",
]
NUMBER_MODEL = "R exact; sqrt/pow/exp/log/rfft/moments/filters uninterpreted and shared between implementation and reference"
EXPLANATION = (
    "Each built-in loss is executed on symbolic data, weights and (uninterpreted) per-coordinate filters, and z3 proves the returned "
    "term equal to an independently written reference term built from the documented formula over the same uninterpreted functions "
    "(structural claim: how members are combined, filters, weights, normalisation constants, bin edges, word weights, corrections). "
    "GSL-div: the symbolisation forks over bin assignments and each is proved equal to 'number of bin edges strictly below the value'; "
    "word statistics are then concrete per path and compared with a tuple-counting reference; injectivity of the base-10 word packing "
    "is a separate obligation over symbolic symbols."
)
ASSUMPTIONS = [
    "numerical accuracy of scipy minkowski, rfft, exp, log, pow and of the 18 default moments is outside the claim (uninterpreted / modelled by definition)",
    "MSM inverse-variance: variances non-zero; standardisation: real moments non-zero",
    "GSL-div values per discretisation path are compared in binary64 with 1e-12 relative tolerance",
]
OUTSIDE = ["E > 3, N > 6, D > 3", "IEEE rounding", "the default 18-moment calculator (C20)"]
REQUIRED_LABELS = ["minkowski_def", "msm_def", "fourier_def", "gsl_symbolisation", "gsl_def", "gsl_word_packing_injective", "likelihood_def"]


def bounds(tier):
    return {"quick": "E<=2, N<=4, D<=2; Minkowski p 1..3 with filters+weights; MSM k=2 moments identity/inverse-variance/given W, standardise on/off; Fourier ideal f in {0.3,0.5,1.0}, gaussian f in {0.5,0.8}; GSL nb_values 2..3, word lengths 1..2, N 3..4; packing with symbolic V in 2..12, word length 2..3; likelihood silverman/scott/value, D 1..2",
            "thorough": "E<=3, N<=6, D<=3; MSM k=3; GSL nb_values 2..4, word lengths 1..3"}[tier]


def _sym_data(ctx, E, N, D):
    return ctx.reals("x", (E, N, D)), ctx.reals("y", (N, D))


def _filters(D, N, which):
    G = [AckFun(f"filter{i}", nout=N) for i in range(D)]

    def mk(i):
        return per_series_filter(G[i], N, f"filter {i}")

    if which == "none":
        return None, [None] * D
    fl = [mk(i) if (which == "all" or i % 2 == 0) else None for i in range(D)]
    return fl, fl


def _filtered(sim, flt, i):
    E = sim.shape[0]
    if flt[i] is None:
        return [list(sim[e, :, i]) for e in range(E)]
    return [list(flt[i](sim[e, :, i])) for e in range(E)]


def _weights(ctx, D, mode):
    if mode == "default":
        return None, [Fraction(1.0 / D)] * D
    w = np.array([ctx.real(f"w{i}") for i in range(D)], dtype=object)
    return w, list(w)


def _cfilter(k):
    return reducing_filter(k)


def _concrete(v, E, N, D, pos=False):
    sim = np.array([[[float(f(v.get(f"x_{e}_{n}_{d}", 0.5))) for d in range(D)] for n in range(N)] for e in range(E)])
    real = np.array([[float(f(v.get(f"y_{n}_{d}", 0.25))) for d in range(D)] for n in range(N)])
    return sim, real


def _cw(v, D, mode):
    return None if mode == "default" else np.array([float(f(v.get(f"w{i}", 1.0))) for i in range(D)])


def _cfilters(D, which):
    if which == "none":
        return None
    return [_cfilter(i) if (which == "all" or i % 2 == 0) else None for i in range(D)]


def _apply_cf(sim, cf, i):
    return sim[:, :, i] if cf is None or cf[i] is None else np.array([cf[i](sim[e, :, i]) for e in range(sim.shape[0])])


def _close(a, b, tol=1e-9):
    a, b = float(a), float(b)
    if math.isnan(a) and math.isnan(b):
        return True
    return abs(a - b) <= tol * (1 + abs(b))


def _mk_loss(cls, omit, **kw):
    """omit=True: every option whose value is the DOCUMENTED default is left out of the constructor call, so the defaults the
    code really applies are what is compared with the definition (p=2; identity weighting, no standardisation; Gaussian
    low-pass with f=0.8; Silverman bandwidth; uniform 1/D weights; no filters)."""
    if omit:
        from black_it.loss_functions.fourier import gaussian_low_pass_filter as _g

        doc = {"p": 2, "covariance_mat": "identity", "standardise_moments": False, "frequency_filter": _g, "f": 0.8, "h": "silverman", "coordinate_weights": None, "coordinate_filters": None}
        for k, dv in doc.items():
            if k in kw and (kw[k] is dv or (not isinstance(kw[k], np.ndarray) and not callable(dv) and dv is not None and kw[k] == dv)):
                del kw[k]
    return cls(**kw)


# ---------------------------------------------------------------- Minkowski
def case_minkowski(p, E, N, D, wmode, fmode, omit=False):
    name = f"minkowski-p{p}-E{E}-N{N}-D{D}-{wmode}-{fmode}" + ("-omitdefaults" if omit else "")

    def body(ctx):
        with loss_world():
            sim, real = _sym_data(ctx, E, N, D)
            fl_arg, fl = _filters(D, N, fmode)
            w_arg, w = _weights(ctx, D, wmode)
            impl = _mk_loss(MinkowskiLoss, omit, p=p, coordinate_weights=w_arg, coordinate_filters=fl_arg).compute_loss(sim, real)
            ref = z3.RealVal(0)
            for i in range(D):
                cols = _filtered(sim, fl, i)
                s = z3.RealVal(0)
                for t in range(N):
                    mean_t = sum(lift(cols[e][t]) for e in range(E)) / E
                    d = mean_t - lift(real[t, i])
                    ad = z3.If(d >= 0, d, -d)
                    s = s + (ad if p == 1 else ad * ad if p == 2 else ad * ad * ad)
                dist = s if p == 1 else UF_SQRT(canon(s)) if p == 2 else UF_POW(canon(s), lift(1.0 / p))
                ref = ref + dist * lift(w[i])
            ctx.prove(lift(impl) == ref, "minkowski_def", f"p={p} weights={wmode} filters={fmode}")
            ctx.sample({"case": name})

    def replay(cex):
        sim, real = _concrete(cex.values, E, N, D)
        w, cf = _cw(cex.values, D, wmode), _cfilters(D, fmode)
        try:
            got = _mk_loss(MinkowskiLoss, omit, p=p, coordinate_weights=w, coordinate_filters=cf).compute_loss(sim, real)
        except Exception as e:  # noqa: BLE001
            reraise_if_harness(e)
            return True, f"raised {type(e).__name__}: {e}"
        ww = [1.0 / D] * D if w is None else w
        exp = sum(float(np.sum(np.abs(_apply_cf(sim, cf, i).mean(axis=0) - real[:, i]) ** p) ** (1.0 / p)) * ww[i] for i in range(D))
        return not _close(got, exp), f"MinkowskiLoss(p={p}, weights={None if w is None else w.tolist()}, filters={fmode}) = {got!r}; definition gives {exp!r}"

    return Case(name, body, replay)


# ---------------------------------------------------------------- MSM
def case_msm(cov, std, k, E, N, D, wmode, fmode, omit=False):
    name = f"msm-{cov}-{'std' if std else 'raw'}-k{k}-E{E}-N{N}-D{D}-{wmode}-{fmode}" + ("-omitdefaults" if omit else "")

    def body(ctx):
        with loss_world():
            ctx.recip_mode = True
            sim, real = _sym_data(ctx, E, N, D)
            fl_arg, fl = _filters(D, N, fmode)
            w_arg, w = _weights(ctx, D, wmode)
            M = AckFun("moments", nout=k)

            def calc(s):
                return np.array(M(list(np.asarray(s, dtype=object).ravel())), dtype=object)

            if cov == "given":
                W = np.empty((k, k), dtype=object)
                for a in range(k):
                    for b in range(a, k):
                        W[a, b] = W[b, a] = ctx.real(f"W{a}{b}")
                cov_arg = W
            else:
                cov_arg = cov
            loss = _mk_loss(MethodOfMomentsLoss, omit, covariance_mat=cov_arg, coordinate_weights=w_arg, moment_calculator=calc, coordinate_filters=fl_arg, standardise_moments=std)
            impl = loss.compute_loss(sim, real)
            ref = 0
            for i in range(D):
                cols = _filtered(sim, fl, i)
                mr = M(list(real[:, i]))
                me = [M(cols[e]) for e in range(E)]
                if std:
                    me = [[me[e][j] / abs(mr[j]) for j in range(k)] for e in range(E)]
                    mr = [mr[j] / abs(mr[j]) for j in range(k)]
                g = [mr[j] - sum(me[e][j] for e in range(E)) / E for j in range(k)]
                if cov == "identity":
                    l1 = sum(g[j] * g[j] for j in range(k))
                elif cov == "inverse_variance":
                    l1 = sum(g[j] * g[j] * (1.0 / (sum((mr[j] - me[e][j]) ** 2 for e in range(E)) / E)) for j in range(k))
                else:
                    l1 = sum(g[a] * W[a, b] * g[b] for a in range(k) for b in range(k))
                ref = ref + l1 * w[i]
            for b in ctx.scratch.get("denominators", []):
                ctx.assume(b != 0, check=False)
            ctx.prove(lift(impl) == lift(ref), "msm_def", name)

    def replay(cex):
        sim, real = _concrete(cex.values, E, N, D)
        w, cf = _cw(cex.values, D, wmode), _cfilters(D, fmode)

        calls = {"n": 0, "memo": {}}

        def calc(s):
            # the user-supplied moment calculator of the counterexample: call i returns the model's moments!i!* (functional:
            # memoised on the input), falling back to a fixed formula
            s = np.asarray(s, dtype=float)
            key = tuple(s.tolist())
            if key not in calls["memo"]:
                i = calls["n"]
                calls["n"] += 1
                base = [np.mean(s) + 2.0, np.mean(s**2) + 1.0, np.max(s) + 3.0][:k]
                calls["memo"][key] = np.array([float(f(cex.values[f"moments!{i}!{j}"])) if cex.values.get(f"moments!{i}!{j}") is not None else base[j] for j in range(k)])
            return calls["memo"][key].copy()

        if cov == "given":
            W = np.array([[float(f(cex.values.get(f"W{min(a, b)}{max(a, b)}", 1.0 if a == b else 0.25))) for b in range(k)] for a in range(k)])
            cov_arg = W
        else:
            cov_arg = cov
        try:
            got = _mk_loss(MethodOfMomentsLoss, omit, covariance_mat=cov_arg, coordinate_weights=w, moment_calculator=calc, coordinate_filters=cf, standardise_moments=std).compute_loss(sim, real)
        except Exception as e:  # noqa: BLE001
            reraise_if_harness(e)
            return True, f"raised {type(e).__name__}: {e}"
        ww = [1.0 / D] * D if w is None else w
        exp = 0.0
        for i in range(D):
            col = _apply_cf(sim, cf, i)
            me = np.array([calc(col[e]) for e in range(E)])
            mr = calc(real[:, i])
            if std:
                me = me / np.abs(mr)[None, :]
                mr = mr / np.abs(mr)
            g = mr - me.mean(axis=0)
            if cov == "identity":
                l1 = float(g @ g)
            elif cov == "inverse_variance":
                with np.errstate(all="ignore"):
                    l1 = float(np.sum(g * g / np.mean((mr[None, :] - me) ** 2, axis=0)))
            else:
                l1 = float(g @ W @ g)
            exp += l1 * ww[i]
        return not _close(got, exp), f"{name}: loss={got!r}; definition gives {exp!r}"

    return Case(name, body, replay, solver_timeout_ms=8000)


# ---------------------------------------------------------------- Fourier
def case_fourier(ff, fval, E, N, D, wmode, fmode, omit=False):
    name = f"fourier-{ff}-f{fval}-E{E}-N{N}-D{D}-{wmode}-{fmode}" + ("-omitdefaults" if omit else "")
    filt = ideal_low_pass_filter if ff == "ideal" else gaussian_low_pass_filter

    def mask(nf):
        if ff == "ideal":
            keep = int(round(fval * nf)) if abs(fval * nf - round(fval * nf)) > 1e-9 or True else 0
            keep = int(np.round(fval * nf))
            return [1.0 if kk < keep else 0.0 for kk in range(nf)]
        sigma = np.round(fval * nf)
        return list(np.exp(-np.arange(nf) ** 2 / (2 * sigma**2)))

    def body(ctx):
        with loss_world() as fft:
            sim, real = _sym_data(ctx, E, N, D)
            fl_arg, fl = _filters(D, N, fmode)
            w_arg, w = _weights(ctx, D, wmode)
            impl = _mk_loss(FourierLoss, omit, frequency_filter=filt, f=fval, coordinate_weights=w_arg, coordinate_filters=fl_arg).compute_loss(sim, real)
            nf = N // 2 + 1
            mk = mask(nf)
            ref = z3.RealVal(0)
            for i in range(D):
                cols = _filtered(sim, fl, i)
                Fr = fft.rfft(real[:, i])
                Fs = [fft.rfft(np.array(cols[e], dtype=object)) for e in range(E)]
                tot = z3.RealVal(0)
                for kk in range(nf):
                    m = lift(mk[kk])
                    re = sum(lift(Fs[e][kk].re) * m for e in range(E)) / E - lift(Fr[kk].re) * m
                    im = sum(lift(Fs[e][kk].im) * m for e in range(E)) / E - lift(Fr[kk].im) * m
                    tot = tot + re * re + im * im
                ref = ref + UF_SQRT(canon(tot / nf)) * lift(w[i])
            ctx.prove(lift(impl) == ref, "fourier_def", name)

    def replay(cex):
        sim, real = _concrete(cex.values, E, N, D)
        w, cf = _cw(cex.values, D, wmode), _cfilters(D, fmode)
        try:
            got = _mk_loss(FourierLoss, omit, frequency_filter=filt, f=fval, coordinate_weights=w, coordinate_filters=cf).compute_loss(sim, real)
        except Exception as e:  # noqa: BLE001
            reraise_if_harness(e)
            return True, f"raised {type(e).__name__}: {e}"
        ww = [1.0 / D] * D if w is None else w
        nf = N // 2 + 1
        mk = np.array(mask(nf))
        exp = 0.0
        for i in range(D):
            col = _apply_cf(sim, cf, i)
            Fs = np.array([np.fft.rfft(col[e]) * mk for e in range(E)]).mean(axis=0)
            Fr = np.fft.rfft(real[:, i]) * mk
            exp += float(np.sqrt(np.sum(np.abs(Fs - Fr) ** 2) / nf)) * ww[i]
        return not _close(got, exp), f"{name}: loss={got!r}; definition gives {exp!r}"

    return Case(name, body, replay, solver_timeout_ms=8000)


# ---------------------------------------------------------------- GSL-div
EPS = 0.00001
# concrete series used when only one side is symbolic (no value sits on a bin edge)
_CR = [0.25, 1.0, 0.0, 0.75, 0.4375, 0.875]
_CS = [0.0, 0.3125, 1.0, 0.5625, 0.8125, 0.125]


def _cr(n):
    return _CR[n % 6] + (n // 6) / 32.0  # distinct values for series longer than the table


def _cs(n, e):
    return _CS[(n + 2 * e) % 6] + (n // 6) / 64.0


def _gsl_ref_member(sim_sym, obs_sym, L, V, T):
    """tuple-counting reference for one ensemble member (concrete symbols)."""
    tot = 0.0
    for l in range(1, L + 1):
        sw = [tuple(sim_sym[i : i + l]) for i in range(len(sim_sym) - l + 1)]
        ow = [tuple(obs_sym[i : i + l]) for i in range(len(obs_sym) - l + 1)]
        cs, cm = Counter(sw), Counter(sw + ow)

        def H(c):
            n = sum(c.values())
            return -sum((v / n) * (math.log(v / n) / math.log(float(V**l))) for v in c.values())

        weight = 2.0 * l / (L * (L + 1))
        corr = ((len(cm) - 1) - (len(cs) - 1)) / (2.0 * T)
        tot += weight * (2 * H(cm) - H(cs) + corr)
    return tot


def _edges_sym(lo, hi, V):
    a, b = lift(lo) - lift(EPS), lift(hi) + lift(EPS)
    return [a + (b - a) * k / V for k in range(V)] + [b]


def _gsl_prior_call(loss, prior_n):
    """An earlier evaluation of the SAME loss object on other data (another length): must not influence the next value."""
    if prior_n:
        loss.compute_loss(np.array([[[_CS[(n * 5 + 1) % 6] + 0.01 * n] for n in range(prior_n)]], dtype=float), np.array([[_CR[(n * 5) % 6] + 0.02 * n] for n in range(prior_n)], dtype=float))


def case_gsl(V, L, E, N, symreal=False, symsim=True, defaults=False, prior_n=0):
    """defaults=True: nb_values / nb_word_lengths left at None (documented default int((N-1)/2) each, must equal V and L)."""
    name = f"gsl-V{V}-L{L}-E{E}-N{N}-{'R' if symreal else 'r'}{'S' if symsim else 's'}" + ("-defaults" if defaults else "") + (f"-after{prior_n}" if prior_n else "")
    assert not defaults or (V == L == int((N - 1) / 2.0))

    def body(ctx):
        with loss_world(), warnings.catch_warnings():
            warnings.simplefilter("ignore")
            sim, real = _sym_data(ctx, E, N, 1)
            if not symreal:
                real = np.array([[_cr(n)] for n in range(N)], dtype=object)
            if not symsim:
                sim = np.array([[[_cs(n, e)] for n in range(N)] for e in range(E)], dtype=object)
            loss = GslDivLoss() if defaults else GslDivLoss(nb_values=V, nb_word_lengths=L)
            _gsl_prior_call(loss, prior_n)
            # symbolisation (forks over bin assignments) vs 'number of edges strictly below'
            def zmin(xs):
                m = lift(xs[0])
                for x in xs[1:]:
                    m = z3.If(lift(x) < m, lift(x), m)
                return m

            def zmax(xs):
                m = lift(xs[0])
                for x in xs[1:]:
                    m = z3.If(lift(x) > m, lift(x), m)
                return m

            series = [list(real[:, 0])] + [list(sim[e, :, 0]) for e in range(E)]
            syms = []
            for s in series:
                got = loss.discretize(np.array(s, dtype=object), V, NPXmin(s), NPXmax(s))
                edges = _edges_sym(Sym(zmin(s)), Sym(zmax(s)), V)
                conds = []
                for t, x in enumerate(s):
                    cnt = z3.Sum([z3.If(e < lift(x), 1, 0) for e in edges])
                    conds.append(cnt == int(got[t]))
                ctx.prove(z3.And(*conds), "gsl_symbolisation", f"symbols {list(map(int, got))}")
                ctx.prove(z3.BoolVal(all(1 <= int(g) <= V for g in got)), "gsl_symbolisation", "symbols within 1..nb_values")
                syms.append([int(g) for g in got])
            impl = loss.compute_loss(sim, real)
            ref = sum(_gsl_ref_member(syms[1 + e], syms[0], L, V, N) for e in range(E)) / E
            ctx.prove(z3.BoolVal(_close(impl, ref, 1e-12)), "gsl_def", f"loss {float(impl)!r} vs tuple-counting reference {ref!r} on symbols {syms}")

    def replay(cex):
        sim, real = _concrete(cex.values, E, N, 1)
        if not symreal:
            real = np.array([[_cr(n)] for n in range(N)], dtype=float)
        if not symsim:
            sim = np.array([[[_cs(n, e)] for n in range(N)] for e in range(E)], dtype=float)
        loss = GslDivLoss() if defaults else GslDivLoss(nb_values=V, nb_word_lengths=L)
        try:
            _gsl_prior_call(loss, prior_n)
            got = loss.compute_loss(sim, real)
        except Exception as e:  # noqa: BLE001
            reraise_if_harness(e)
            return True, f"raised {type(e).__name__}: {e}"

        def symb(s):
            lo, hi = float(np.min(s)) - EPS, float(np.max(s)) + EPS
            edges = [lo + (hi - lo) * k / V for k in range(V)] + [hi]
            return [sum(1 for e in edges if e < x) for x in s]

        ref = sum(_gsl_ref_member(symb(sim[e, :, 0]), symb(real[:, 0]), L, V, N) for e in range(E)) / E
        what = "GslDivLoss() [defaults]" if defaults else f"GslDivLoss(nb_values={V}, nb_word_lengths={L})"
        return not _close(got, ref, 1e-9), f"{what}{f' after an evaluation on series of length {prior_n}' if prior_n else ''} = {got!r}; tuple-counting definition with {V} symbols, word lengths 1..{L} gives {ref!r} (sim={sim[:, :, 0].tolist()}, real={real[:, 0].tolist()})"

    return Case(name, body, replay, time_budget=400, split=3 if (E * N * symsim + N * symreal) >= 6 else 0)


def NPXmin(s):
    from symx.npx import NPX

    return NPX.min(np.array(s, dtype=object))


def NPXmax(s):
    from symx.npx import NPX

    return NPX.max(np.array(s, dtype=object))


def case_gsl_packing(l):
    name = f"gsl-packing-l{l}"

    def body(ctx):
        with loss_world():
            V = ctx.int("V", 2, 12)
            a = [ctx.int(f"a{i}", 1) for i in range(l)]
            b = [ctx.int(f"b{i}", 1) for i in range(l)]
            for x in a + b:
                ctx.solver.add(x.t <= V.t)
            wa = GslDivLoss.get_words(np.array(a, dtype=object), l)
            wb = GslDivLoss.get_words(np.array(b, dtype=object), l)
            ctx.prove(z3.BoolVal(len(wa) == 1 and len(wb) == 1), "gsl_word_packing_injective", "one word")
            ctx.prove(z3.Implies(lift(wa[0]) == lift(wb[0]), z3.And(*[x.t == y.t for x, y in zip(a, b)])), "gsl_word_packing_injective",
                      f"distinct symbol tuples of length {l} get distinct words")

    def replay(cex):
        v = cex.values
        a = [int(v.get(f"a{i}") or 1) for i in range(l)]
        b = [int(v.get(f"b{i}") or 1) for i in range(l)]
        wa, wb = GslDivLoss.get_words(np.asarray(a), l), GslDivLoss.get_words(np.asarray(b), l)
        bad = a != b and int(wa[0]) == int(wb[0])
        return bad, f"nb_values={v.get('V')}: symbol tuples {a} and {b} are both packed into the word {int(wa[0])}/{int(wb[0])}"

    return Case(name, body, replay)


def _packing_region(ctx):
    return ctx.inputs["V"] >= 10


REGIONS = {"gsl-base10-packing": ("gsl_word_packing_injective", _packing_region)}


# ---------------------------------------------------------------- likelihood
def case_likelihood(h, E, N, S, D, fmode, omit=False):
    name = f"likelihood-h{h}-E{E}-T{N}-S{S}-D{D}-{fmode}" + ("-omitdefaults" if omit else "")

    def bw():
        if h == "silverman":
            return ((S * (D + 2)) / 4) ** (-1 / (D + 4))
        if h == "scott":
            return S ** (-1 / (D + 4))
        return h

    def body(ctx):
        with loss_world(), warnings.catch_warnings():
            warnings.simplefilter("ignore")
            sim = ctx.reals("x", (E, S, D))
            real = ctx.reals("y", (N, D))
            fl_arg, fl = _filters(D, S, fmode)
            impl = _mk_loss(LikelihoodLoss, omit, coordinate_filters=fl_arg, h=h).compute_loss(sim, real)
            hh = bw()
            norm = hh**D * (2 * np.pi) ** (D / 2.0)
            cols = [_filtered(sim, fl, d) for d in range(D)]  # cols[d][e][s]
            tot = z3.RealVal(0)
            for r in range(E):
                for t in range(N):
                    acc = z3.RealVal(0)
                    for s in range(S):
                        sq = z3.RealVal(0)
                        for d in range(D):
                            df = lift(cols[d][r][s]) - lift(real[t, d])
                            sq = sq + df * df
                        sq = lift(1.0 / D) * sq
                        acc = acc + UF_EXP(canon(-(sq / lift(2 * hh**2)))) / lift(norm)
                    tot = tot + UF_LOG(canon(acc / S))
            ref = -(tot / E)
            ctx.prove(lift(impl) == ref, "likelihood_def", name)

    def replay(cex):
        v = cex.values
        sim = np.array([[[float(f(v.get(f"x_{e}_{s}_{d}", 0.5))) for d in range(D)] for s in range(S)] for e in range(E)])
        real = np.array([[float(f(v.get(f"y_{n}_{d}", 0.25))) for d in range(D)] for n in range(N)])
        cf = _cfilters(D, fmode)
        with warnings.catch_warnings():
            warnings.simplefilter("ignore")
            try:
                got = _mk_loss(LikelihoodLoss, omit, coordinate_filters=cf, h=h).compute_loss(sim, real)
            except Exception as e:  # noqa: BLE001
                reraise_if_harness(e)
                return True, f"raised {type(e).__name__}: {e}"
        hh = bw()
        fs = np.stack([_apply_cf(sim, cf, d) for d in range(D)], axis=2)  # (E,S,D)
        tot = 0.0
        for r in range(E):
            for t in range(N):
                ks = [math.exp(-(sum((fs[r, s, d] - real[t, d]) ** 2 for d in range(D)) / D) / (2 * hh**2)) / (hh**D * (2 * math.pi) ** (D / 2)) for s in range(S)]
                tot += math.log(sum(ks) / S) if sum(ks) > 0 else float("-inf")
        exp = -tot / E
        return not _close(got, exp), f"{name}: loss={got!r}; definition gives {exp!r}"

    return Case(name, body, replay, solver_timeout_ms=8000)


def cases(tier, seed):
    cs = []
    for p in (1, 2, 3):
        cs.append(case_minkowski(p, 2, 3, 2, "sym", "mixed"))
    cs.append(case_minkowski(2, 1, 4, 1, "default", "all"))
    cs.append(case_minkowski(2, 2, 2, 2, "default", "none"))
    # options left at their documented defaults (constructor called without them)
    cs.append(case_minkowski(2, 2, 2, 2, "default", "none", omit=True))
    cs.append(case_msm("identity", False, 2, 2, 2, 2, "default", "none", omit=True))
    cs.append(case_fourier("gaussian", 0.8, 1, 6, 1, "default", "none", omit=True))  # N=6: sigma = round(0.8*4) = 3 differs from round(f*4) for other f
    cs.append(case_likelihood("silverman", 2, 2, 2, 1, "none", omit=True))
    for cov in ("identity", "inverse_variance", "given"):
        cs.append(case_msm(cov, False, 2, 2, 2, 2, "sym", "mixed"))
    cs.append(case_msm("identity", True, 2, 2, 2, 1, "default", "all"))
    cs.append(case_msm("inverse_variance", True, 2, 2, 2, 1, "default", "none"))
    for ff, fv in [("ideal", 0.3), ("ideal", 0.5), ("ideal", 1.0), ("gaussian", 0.5), ("gaussian", 0.8)]:
        cs.append(case_fourier(ff, fv, 2, 4, 2 if fv == 0.5 else 1, "sym" if fv != 0.3 else "default", "mixed" if fv in (0.5, 0.8) else "none"))
    for V, L, E, N, sr, ssm in [(2, 1, 1, 3, False, True), (2, 2, 1, 3, True, False), (3, 2, 1, 3, False, True), (2, 2, 2, 2, False, True), (3, 1, 1, 4, False, True), (2, 2, 1, 2, True, True)]:
        cs.append(case_gsl(V, L, E, N, sr, ssm))
    # default options (None -> int((N-1)/2) symbols and word lengths), alone and after an evaluation of the same object on another length
    cs.append(case_gsl(2, 2, 1, 5, False, True, defaults=True))
    cs.append(case_gsl(2, 2, 1, 5, False, True, defaults=True, prior_n=7))
    cs.append(case_gsl(2, 2, 1, 5, True, False, defaults=True, prior_n=9))
    cs.append(case_gsl(2, 2, 1, 3, False, True, prior_n=8))
    for l in (2, 3):
        cs.append(case_gsl_packing(l))
    for h, D, fm in [("silverman", 1, "none"), ("scott", 2, "mixed"), (0.7, 2, "all"), (1.3, 1, "all")]:
        cs.append(case_likelihood(h, 2, 2, 2, D, fm))
    if tier == "thorough":
        cs.append(case_minkowski(2, 3, 4, 3, "sym", "all"))
        cs.append(case_minkowski(3, 3, 6, 1, "default", "all"))
        for cov in ("identity", "inverse_variance", "given"):
            cs.append(case_msm(cov, True, 3, 3, 2, 1, "sym", "all"))
        cs.append(case_fourier("gaussian", 0.8, 3, 6, 1, "sym", "all"))
        cs.append(case_fourier("ideal", 0.8, 2, 5, 2, "sym", "mixed"))
        for V, L, E, N, sr, ssm in [(4, 2, 1, 4, False, True), (3, 3, 1, 4, True, False), (2, 2, 2, 3, False, True), (3, 2, 1, 3, True, True), (4, 3, 1, 5, False, True)]:
            cs.append(case_gsl(V, L, E, N, sr, ssm))
        cs.append(case_gsl(2, 2, 1, 6, False, True, defaults=True, prior_n=4))
        cs.append(case_gsl(2, 2, 2, 6, True, False, defaults=True, prior_n=12))
        cs.append(case_likelihood("silverman", 3, 2, 3, 2, "mixed"))
        cs.append(case_likelihood(0.5, 2, 3, 2, 3, "all"))
    return cs


MANIFEST = {
    "category": "other",
    "text": "Each built-in loss (Minkowski, MSM with identity/inverse-variance/given weighting and standardisation, Fourier ideal/gaussian, GSL-div, kernel likelihood) is executed symbolically and z3 proves the result equal to an independently written reference term from the documented formula over shared uninterpreted functions - so a dropped option, a wrong constant, a mis-indexed filter/weight, a bin-edge side slip or a conflating word encoding is a satisfiable difference, found for any option values and shapes within the bounds rather than for one pinned number.",
    "note": "Structural claim in exact reals: transcendental functions, rfft, scipy minkowski and the moment calculator are uninterpreted/modelled; shapes bounded (E<=2,N<=4,D<=2 quick); GSL word statistics evaluated in binary64 per discretisation path.",
}
