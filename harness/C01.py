"""C01 — a calibration run is a pure function of its configuration and seed."""
from __future__ import annotations

import contextlib
import io
import shutil
import tempfile
import warnings

import numpy as np
import z3

import black_it.calibrator as cal
from harness.common import Case, f
from harness.detcal import det_world, histories_equal, history, make_calibrator, make_rl_calibrator, make_sampler, rl_baton, shared_functions
from symx.core import lift
from symx.memfs import MemFS
from symx.core import reraise_if_harness  # noqa: E402

LEVEL = "model_checking"
FUNCTIONS = [
    "black_it.calibrator:Calibrator.__init__", "black_it.calibrator:Calibrator.calibrate", "black_it.calibrator:Calibrator.simulate_model",
    "black_it.calibrator:Calibrator._set_samplers_seeds", "black_it.utils.seedable:BaseSeedable._set_random_state", "black_it.utils.seedable:BaseSeedable._get_random_seed",
    "black_it.schedulers.base:BaseScheduler._set_random_state", "black_it.schedulers.round_robin:RoundRobinScheduler.get_next_sampler",
    "black_it.samplers.base:BaseSampler.sample", "black_it.samplers.halton:HaltonSampler._set_random_state", "black_it.samplers.halton:HaltonSampler._halton",
    "black_it.samplers.r_sequence:RSequenceSampler._set_random_state", "black_it.samplers.r_sequence:RSequenceSampler._r_sequence",
    "black_it.samplers.random_uniform:RandomUniformSampler.sample_batch", "black_it.samplers.surrogate:MLSurrogateSampler.sample_batch",
    "black_it.samplers.surrogate:MLSurrogateSampler.sample_candidates", "black_it.samplers.xgboost:XGBoostSampler.fit",
    "black_it.samplers.random_forest:RandomForestSampler.fit", "black_it.samplers.gaussian_process:GaussianProcessSampler.fit",
    "black_it.samplers.particle_swarm:ParticleSwarmSampler.sample_batch", "black_it.samplers.cors:CORSSampler.sample_batch", "black_it.samplers.best_batch:BestBatchSampler.sample_batch",
]
NUMBER_MODEL = "all randomness is the uninterpreted term draw(seed term, counter); model, loss, learners, optimiser, halton(), snapping are uninterpreted pure functions; seeds are symbolic Ints"
EXPLANATION = (
    "Two real calibrations A and B run in one solver context from the same configuration and the same symbolic calibrator seed S, while "
    "the nuisance inputs differ: every sampler object is constructed with a different symbolic seed in A and B, n_jobs differs (1 vs 2/4, "
    "with the worker execution order reversed), verbosity differs, a saving folder is set in one run only. z3 proves that every history "
    "cell (parameters, series, losses, batch and sampler labels) and both return values are equal terms. Because every random draw is "
    "draw(seed, counter), a seed drawn in a worker, a cursor kept over a reseed, a stream shared by two samplers or a draw made only "
    "when verbose makes the two term trees differ and the solver returns the distinguishing assignment."
)
ASSUMPTIONS = [
    "numpy Generator contract (draws are a function of seed and draw counter), joblib contract (tasks built in the parent in order, results in submission order)",
    "sklearn/xgboost/scipy estimators and optimiser: deterministic functions of their inputs and random_state (bit-level determinism of those libraries is outside the claim)",
    "halton() and digitize_data are abstracted to uninterpreted pure functions here (their arithmetic is C13/C17's subject); deduplication budget 0 except in the dedicated case",
    "RL scheduler line-ups run on real threads under the baton scheduler with one fixed schedule (schedule independence is C10's result); epsilon symbolic, saving folder unset (an RL scheduler cannot be checkpointed: C04 known finding)",
]
OUTSIDE = ["bit-level determinism of third-party learners", "real multiprocessing scheduling (replaced by the joblib contract)", "RL scheduler with more than one session (C10)", "more than 4 batches / 3 samplers"]
REQUIRED_LABELS = ["same_history", "same_return_value"]


def bounds(tier):
    return {"quick": "8 line-ups of 1..3 samplers covering all nine classes (batch sizes 1..2), 3..4 batches, ensemble 1..2, n_jobs pairs (1,2),(1,4),(2,4), verbose/folder toggled, symbolic calibrator and constructor seeds",
            "thorough": "20 line-ups incl. repeated classes and every ordered pair of stateful samplers, up to 5 batches"}[tier]


def case(name, lineup, nb, E, jobs):
    def body(ctx):
        S = ctx.int("S", 0)
        shared = shared_functions(ctx)
        fs = MemFS()
        with det_world(fs):
            ctx.mul_abstract = any(k == "pso" for k, _ in lineup)  # swarm dynamics: products as uninterpreted terms (congruence suffices for equality of runs)
            ctx.parallel_reverse = True
            ca = [ctx.int(f"ctorA{i}", 0) for i in range(len(lineup))]
            cb = [ctx.int(f"ctorB{i}", 0) for i in range(len(lineup))]
            for x, y in zip(ca, cb):
                ctx.solver.add(x.t != y.t)
            A = make_calibrator(ctx, lineup, S, ca, jobs[0], False, None, shared, E=E)
            ra = A.calibrate(nb)
            B = make_calibrator(ctx, lineup, S, cb, jobs[1], True, "/memfs/c01", shared, E=E)
            rb = B.calibrate(nb)
            histories_equal(ctx, history(A), history(B), "same_history", f"{name} (n_jobs {jobs[0]} vs {jobs[1]}, verbose off/on, folder unset/set, different constructor seeds)")
            conds = [lift(x) == lift(y) for x, y in zip(np.asarray(ra[0], dtype=object).ravel(), np.asarray(rb[0], dtype=object).ravel())]
            conds += [lift(x) == lift(y) for x, y in zip(np.asarray(ra[1], dtype=object).ravel(), np.asarray(rb[1], dtype=object).ravel())]
            ctx.prove(z3.And(z3.BoolVal(ra[0].shape == rb[0].shape and ra[1].shape == rb[1].shape), *conds), "same_return_value", name)
            ctx.sample({"case": name, "rows": len(A.losses_samp)})

    def replay(cex):
        S0 = int(cex.values.get("S") or 0) % 2**32
        # the seed is unconstrained on every path (it only occurs inside draw(seed, k)): any seed instantiates the counterexample
        for S in (S0, S0 + 1, S0 + 2):
            bad, info = replay_concrete(lineup, nb, E, jobs, S)
            if bad:
                break
        return bad, info

    return Case(name, body, replay, time_budget=400, witness_paths=1, split=3 if any(k in ("rf", "xgb", "gp", "bestbatch") for k, _ in lineup) else 0)


def case_rl(name, lineup, nb, jobs, agent_first=False):
    """RL scheduler, single session: same relational check (the saving folder stays unset: an RL scheduler cannot be checkpointed,
    C04 known finding)."""

    def body(ctx):
        S = ctx.int("S", 0)
        shared = shared_functions(ctx)
        with det_world(None), rl_baton(agent_first):
            ctx.parallel_reverse = True
            k = len(lineup) + 2
            ca = [ctx.int(f"ctorA{i}", 0) for i in range(k)]
            cb = [ctx.int(f"ctorB{i}", 0) for i in range(k)]
            for x, y in zip(ca, cb):
                ctx.solver.add(x.t != y.t)
            eps = ctx.real("eps", 0, 1)
            A = make_rl_calibrator(ctx, lineup, S, ca, jobs[0], False, None, shared, eps, 0.5)
            ra = A.calibrate(nb)
            B = make_rl_calibrator(ctx, lineup, S, cb, jobs[1], True, None, shared, eps, 0.5)
            rb = B.calibrate(nb)
            histories_equal(ctx, history(A), history(B), "same_history", f"{name} RL scheduler (n_jobs {jobs[0]} vs {jobs[1]}, verbose off/on, different constructor seeds)")
            conds = [lift(x) == lift(y) for x, y in zip(np.asarray(ra[1], dtype=object).ravel(), np.asarray(rb[1], dtype=object).ravel())]
            ctx.prove(z3.And(z3.BoolVal(ra[0].shape == rb[0].shape), *conds), "same_return_value", name)
            ctx.sample({"case": name, "rows": len(A.losses_samp), "samplers_used": [int(x) if not hasattr(x, "t") else str(x.t) for x in A.method_samp]})

    def replay(cex):
        S0 = int(cex.values.get("S") or 0) % 2**32
        eps = float(f(cex.values.get("eps", 0.3)))
        for S in (S0, S0 + 1, S0 + 2):
            bad, info = replay_rl(lineup, nb, jobs, S, eps)
            if bad:
                break
        return bad, info

    return Case(name, body, replay, time_budget=900, witness_paths=1, split=4)


def replay_rl(lineup, nb, jobs, S, eps):
    from black_it.loss_functions.minkowski import MinkowskiLoss
    from black_it.schedulers.rl.agents.epsilon_greedy import MABEpsilonGreedy
    from black_it.schedulers.rl.envs.mab import MABCalibrationEnv
    from black_it.schedulers.rl.rl_scheduler import RLScheduler

    def run(seeds, n_jobs, verbose):
        samplers = [make_sampler(kind, B, seeds[i]) for i, (kind, B) in enumerate(lineup)]
        n_eff = len(samplers) + (0 if any(k == "halton" for k, _ in lineup) else 1)
        sched = RLScheduler(samplers, MABEpsilonGreedy(n_eff, 0.5, eps, random_state=seeds[-1]), MABCalibrationEnv(n_eff), random_state=seeds[-2])
        with contextlib.redirect_stdout(io.StringIO()), warnings.catch_warnings():
            warnings.simplefilter("ignore")
            c = cal.Calibrator(loss_function=MinkowskiLoss(), real_data=np.array([[0.3], [0.6]]), model=_model, parameters_bounds=[[0.0], [1.0]],
                               parameters_precision=[1.0 / 256], ensemble_size=1, scheduler=sched, verbose=verbose, random_state=S, n_jobs=n_jobs)
            c.calibrate(nb)
        return c

    k = len(lineup) + 2
    try:
        a = run([11 + i for i in range(k)], min(jobs[0], 2), False)
        b = run([97 + 3 * i for i in range(k)], min(jobs[1], 2), True)
    except Exception as e:  # noqa: BLE001
        reraise_if_harness(e)
        return True, f"calibration raised {type(e).__name__}: {e}"
    msgs = []
    for nm in ("params_samp", "losses_samp", "series_samp", "batch_num_samp", "method_samp"):
        x, y = getattr(a, nm), getattr(b, nm)
        if x.shape != y.shape or not np.array_equal(x, y):
            msgs.append(f"{nm} differs")
    return bool(msgs), f"RL scheduler, seed {S}, eps {eps}, line-up {lineup}, {nb} batches, n_jobs {jobs}: " + ("; ".join(msgs) or "identical histories")


def _model(theta, N, seed):  # noqa: N803
    rng = np.random.default_rng(seed)
    return np.full((N, 1), float(np.sum(theta))) + rng.normal(size=(N, 1)) * 0.05


def replay_concrete(lineup, nb, E, jobs, S):
    """Real everything: real numpy generators, real joblib with the two n_jobs values, real learners; bitwise comparison."""
    from black_it.loss_functions.minkowski import MinkowskiLoss

    def run(ctor_seeds, n_jobs, verbose, folder):
        samplers = []
        for (kind, B), cs in zip(lineup, ctor_seeds):
            s = make_sampler(kind, B, cs)
            if kind in ("xgb", "rf", "gp"):
                s._candidate_pool_size = 8
            samplers.append(s)
        with contextlib.redirect_stdout(io.StringIO()), warnings.catch_warnings():
            warnings.simplefilter("ignore")
            # three parameters in the replay (some learners only use their randomness with several features)
            c = cal.Calibrator(loss_function=MinkowskiLoss(), real_data=np.array([[0.3], [0.6]]), model=_model, parameters_bounds=[[0.0] * 3, [1.0] * 3],
                               parameters_precision=[1.0 / 256] * 3, ensemble_size=E, samplers=samplers, verbose=verbose, saving_folder=folder, random_state=S, n_jobs=n_jobs)
            ret = c.calibrate(nb + 3 if any(k in ("xgb", "rf", "gp") for k, _ in lineup) else nb)
        return c, ret

    tmp = tempfile.mkdtemp(prefix="verif-c01-")
    try:
        nb_ = nb + 3 if any(k in ("xgb", "rf", "gp") for k, _ in lineup) else nb  # learners need some history before their randomness matters
        a, ra = run([11 + i for i in range(len(lineup))], min(jobs[0], 2), False, None)
        b, rb = run([97 + 3 * i for i in range(len(lineup))], min(jobs[1], 2), True, tmp)
    except Exception as e:  # noqa: BLE001
        reraise_if_harness(e)
        shutil.rmtree(tmp, ignore_errors=True)
        return True, f"calibration raised {type(e).__name__}: {e}"
    shutil.rmtree(tmp, ignore_errors=True)
    msgs = []
    for nm in ("params_samp", "losses_samp", "series_samp", "batch_num_samp", "method_samp"):
        x, y = getattr(a, nm), getattr(b, nm)
        if x.shape != y.shape or not np.array_equal(x, y):
            i = None if x.shape != y.shape else tuple(np.argwhere(x != y)[0])
            msgs.append(f"{nm} differs" + (f" (shapes {x.shape}/{y.shape})" if i is None else f" at {i}: {x[i]!r} vs {y[i]!r}"))
    if not (np.array_equal(ra[0], rb[0]) and np.array_equal(ra[1], rb[1])):
        msgs.append("return values differ")
    return bool(msgs), f"seed {S}, line-up {lineup}, {nb} batches, n_jobs {jobs}, verbose off/on, folder unset/set, different sampler constructor seeds: " + ("; ".join(msgs[:3]) or "identical histories")


def cases(tier, seed):
    cs = [
        case("uniform-halton", [("uniform", 2), ("halton", 1)], 4, 1, (1, 2)),
        case("halton-halton-rseq", [("halton", 1), ("halton", 2), ("rseq", 1)], 4, 2, (1, 4)),
        case("rseq-xgb", [("rseq", 2), ("xgb", 1)], 3, 1, (2, 4)),
        case("uniform-rf", [("uniform", 2), ("rf", 1)], 3, 1, (1, 2)),
        case("halton-gp", [("halton", 2), ("gp", 1)], 3, 1, (1, 2)),
        case("uniform-pso", [("uniform", 1), ("pso", 1)], 4, 1, (1, 2)),
        case("halton-cors", [("halton", 2), ("cors", 1)], 3, 1, (1, 4)),
        case("uniform-bestbatch", [("uniform", 2), ("bestbatch", 1)], 3, 1, (1, 2)),
        case("uniform-dedup", [("uniform-dedup", 1)], 3, 1, (1, 2)),
        case_rl("rl-uniform-halton", [("uniform", 1), ("halton", 1)], 2, (1, 2)),
        case_rl("rl-halton-rseq-agentfirst", [("halton", 1), ("rseq", 1)], 2, (1, 4), agent_first=True),
    ]
    if tier == "thorough":
        cs += [
            case("pso-pso", [("pso", 1), ("pso", 1)], 5, 1, (1, 2)),
            case("cors-cors-halton", [("halton", 2), ("cors", 1), ("cors", 1)], 4, 1, (1, 2)),
            case("rseq-rseq", [("rseq", 1), ("rseq", 2)], 5, 2, (2, 4)),
            case("xgb-rf", [("uniform", 2), ("xgb", 1), ("rf", 1)], 3, 1, (1, 2)),
            case("halton-pso-rseq", [("halton", 1), ("pso", 1), ("rseq", 1)], 5, 1, (1, 4)),
            case("uniform-bestbatch-bestbatch", [("uniform", 2), ("bestbatch", 1), ("bestbatch", 1)], 4, 1, (1, 2)),
            case("halton-xgb-E2", [("halton", 2), ("xgb", 1)], 3, 2, (1, 2)),
            case_rl("rl-rseq-uniform", [("rseq", 1), ("uniform", 1)], 2, (1, 4)),
            case_rl("rl-halton-rseq", [("halton", 1), ("rseq", 1)], 3, (1, 4)),
            case_rl("rl-uniform-halton-agentfirst", [("uniform", 1), ("halton", 1)], 3, (1, 2), agent_first=True),
            case_rl("rl-uniform-halton-4", [("uniform", 1), ("halton", 1)], 4, (2, 4)),
        ]
    return cs


MANIFEST = {
    "category": "model_checking",
    "text": "Relational symbolic execution: two real calibrations with the same configuration and the same symbolic calibrator seed but different sampler-constructor seeds, n_jobs (with reversed worker order), verbosity and saving folder are executed in one solver context with every random draw an uninterpreted function of (seed, counter); z3 proves all history cells and return values equal - for every seed at once and for line-ups covering all nine sampler classes, which the single pinned trajectory of the suite cannot.",
    "note": "Third-party learners/optimiser assumed deterministic given inputs and random_state; halton() and snapping abstracted as pure functions; dedup budget 0 except one case; RL scheduler: single session under one fixed thread schedule; line-ups <= 3 samplers, <= 4 batches quick.",
}
