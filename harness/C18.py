"""C18 — sampler labels in a history can always be mapped back to sampler names."""
from __future__ import annotations

import contextlib
import io
import shutil
import tempfile

import numpy as np
import z3

import black_it.calibrator as cal
from black_it.loss_functions.minkowski import MinkowskiLoss
from black_it.samplers.base import BaseSampler
from black_it.schedulers.round_robin import RoundRobinScheduler
from harness.common import Case, inject
from symx.core import Sym, lift
from symx.core import reraise_if_harness  # noqa: E402

LEVEL = "model_checking"
FUNCTIONS = [
    "black_it.calibrator:Calibrator._construct_samplers_id_table", "black_it.calibrator:Calibrator.update_samplers_id_table",
    "black_it.calibrator:Calibrator.set_samplers", "black_it.calibrator:Calibrator.set_scheduler", "black_it.calibrator:Calibrator.calibrate",
    "black_it.plot.plot_results:_get_samplers_id_table", "black_it.plot.plot_results:_get_samplers_names",
    "black_it.utils.json_pandas_checkpointing:save_calibrator_state",
]
NUMBER_MODEL = "Z: table ids are symbolic Ints constrained by the representation invariant"
EXPLANATION = (
    "Inductive step: the real update_samplers_id_table / set_samplers / set_scheduler run from an arbitrary symbolic table (membership of "
    "each of 4 classes a free Bool, ids free Ints constrained to be a bijection onto 0..m-1) with a symbolic replacement list (class per "
    "position a free Int): z3 proves old entries unchanged, new classes on the fresh ids m, m+1, ... (any order), bijection onto 0..m'-1 preserved (the representation invariant of the len()-based numbering). "
    "Labels: real calibrations interleaved with symbolic replacement scenarios, every stored label must be the table id of the class that "
    "produced the row. Recovery: a checkpoint written by the real calibrator is read back by the real plotting helper and the recovered "
    "names compared with the producing classes."
)
ASSUMPTIONS = [
    "representation invariant of the table: injective with ids exactly 0..m-1, m >= 1 (true after __init__ for a non-empty sampler list; preserved by the step)",
    "recovery clause runs the real files (json/pickle/csv/hdf5) in a temporary folder",
]
OUTSIDE = ["more than 4 sampler classes / replacement lists longer than 3", "user classes sharing a __name__"]
REQUIRED_LABELS = ["ids_never_reassigned", "new_ids_fresh_contiguous", "label_identifies_class", "names_recoverable_from_checkpoint"]

NCLS = 4


def bounds(tier):
    return {"quick": "pool of 4 classes, arbitrary symbolic pre-table, replacement lists of length 0..3 (symbolic class per position), three mutators; constructor base case for every line-up of length 1..3; label/recovery scenarios: 15 symbolic replacement scenarios",
            "thorough": "same with lists up to length 4 and 10 scenarios"}[tier]


_PRODUCED = []


class _S(BaseSampler):
    """Scripted sampler; records (class-level, so instances stay picklable) which class produced each row."""

    def __init__(self, batch_size):
        super().__init__(batch_size, max_deduplication_passes=0)

    def sample_batch(self, batch_size, search_space, existing_points, existing_losses):
        k = len(existing_points)
        _PRODUCED.extend([type(self).__name__] * batch_size)
        return np.array([[0.125 * ((k + r) % 9)] for r in range(batch_size)])


CLASSES = [type(f"Sampler{c}", (_S,), {"__module__": __name__}) for c in "ABCDE"]
for _c in CLASSES:
    globals()[_c.__name__] = _c  # picklable by reference


def _model(theta, N, seed):
    return np.full((N, 1), float(theta[0]))


def _calibrator(samplers, folder=None):
    with contextlib.redirect_stdout(io.StringIO()):
        return cal.Calibrator(loss_function=MinkowskiLoss(), real_data=np.zeros((3, 1)), model=_model, parameters_bounds=[[0.0], [1.0]],
                              parameters_precision=[0.125], ensemble_size=1, samplers=samplers, verbose=False, saving_folder=folder, random_state=0, n_jobs=1)


def case_step(mutator, L):
    name = f"step-{mutator}-len{L}"

    def body(ctx):
        c = _calibrator([CLASSES[0](1)])
        member = [ctx.bool(f"in{i}") for i in range(NCLS)]
        ids = [ctx.int(f"id{i}", 0, NCLS - 1) for i in range(NCLS)]
        present = [i for i in range(NCLS) if bool(member[i])]
        if not present:
            from symx.core import PathAbort

            raise PathAbort()
        m = len(present)
        for i in present:
            ctx.solver.add(ids[i].t < m)
        for a in present:
            for b in present:
                if a < b:
                    ctx.solver.add(ids[a].t != ids[b].t)
        table = {CLASSES[i].__name__: ids[i] for i in present}
        inject(c, "samplers_id_table", table)
        before = dict(table)
        seq = [int(ctx.int(f"cls{p}", 0, NCLS - 1)) for p in range(L)]
        new_samplers = [CLASSES[k](1) for k in seq]
        if mutator == "update":
            c.update_samplers_id_table(new_samplers)
        elif mutator == "set_samplers":
            c.set_samplers(new_samplers)
        else:
            if not new_samplers:
                from symx.core import PathAbort

                raise PathAbort()
            c.set_scheduler(RoundRobinScheduler(new_samplers))
        after = c.samplers_id_table
        ctx.prove(z3.And(*[lift(after[k]) == lift(v) for k, v in before.items()]) if all(k in after for k in before) else z3.BoolVal(False),
                  "ids_never_reassigned", f"pre-table classes {sorted(before)}")
        fresh = []
        for k in seq:
            nm = CLASSES[k].__name__
            if nm not in before and nm not in fresh:
                fresh.append(nm)
        ok_keys = set(after) == set(before) | set(fresh)
        conds = [z3.BoolVal(ok_keys)]
        if ok_keys:
            # fresh (no existing id reused), pairwise distinct, and the representation invariant the induction rests on is
            # re-established (ids are 0..m'-1); WHICH of the new classes gets which new id is not prescribed
            for nm in fresh:
                conds.append(z3.And(lift(after[nm]) >= m, lift(after[nm]) < m + len(fresh)))
            for i1 in range(len(fresh)):
                for i2 in range(i1 + 1, len(fresh)):
                    conds.append(lift(after[fresh[i1]]) != lift(after[fresh[i2]]))
        ctx.prove(z3.And(*conds), "new_ids_fresh_contiguous", f"new classes {fresh} get the fresh ids {m}..{m + len(fresh) - 1} (any order)")
        if mutator == "set_samplers":
            ctx.prove(z3.BoolVal([type(s) for s in c.scheduler.samplers] == [CLASSES[k] for k in seq]), "new_ids_fresh_contiguous", "scheduler now holds the new samplers")
        ctx.sample({"case": name, "pre": sorted(before), "list": seq})

    def replay(cex):
        v = cex.values
        present = [i for i in range(NCLS) if v.get(f"in{i}")]
        if not present:
            return False, "empty table"
        table = {CLASSES[i].__name__: int(v.get(f"id{i}") or 0) for i in present}
        seq = [int(v.get(f"cls{p}") or 0) for p in range(L)]
        c = _calibrator([CLASSES[0](1)])
        c.samplers_id_table = dict(table)
        new = [CLASSES[k](1) for k in seq]
        try:
            if mutator == "update":
                c.update_samplers_id_table(new)
            elif mutator == "set_samplers":
                c.set_samplers(new)
            else:
                c.set_scheduler(RoundRobinScheduler(new))
        except Exception as e:  # noqa: BLE001
            reraise_if_harness(e)
            return True, f"{mutator} raised {type(e).__name__}: {e}"
        after = c.samplers_id_table
        m = len(table)
        fresh = []
        for k in seq:
            nm = CLASSES[k].__name__
            if nm not in table and nm not in fresh:
                fresh.append(nm)
        bad = any(after.get(k) != v for k, v in table.items()) or set(after) != set(table) | set(fresh) \
            or sorted(after[nm] for nm in fresh if nm in after) != list(range(m, m + len(fresh)))
        return bad, f"table {table} + {mutator}({[CLASSES[k].__name__ for k in seq]}) -> {after}; expected the old entries unchanged and {fresh} on the fresh ids {list(range(m, m + len(fresh)))}"

    return Case(name, body, replay, split=3 if L >= 3 else 0)


def case_construct(L):
    """Base case of the induction: the table built by the constructor satisfies the representation invariant."""
    name = f"construct-len{L}"

    def body(ctx):
        seq = [int(ctx.int(f"cls{p}", 0, NCLS - 1)) for p in range(L)]
        c = _calibrator([CLASSES[k](1) for k in seq])
        tab = c.samplers_id_table
        first_seen = []
        for k in seq:
            if CLASSES[k].__name__ not in first_seen:
                first_seen.append(CLASSES[k].__name__)
        ok = set(tab) == set(first_seen) and sorted(tab.values()) == list(range(len(first_seen)))
        ctx.prove(z3.BoolVal(ok), "new_ids_fresh_contiguous", f"constructor table for {[CLASSES[k].__name__ for k in seq]}: {dict(tab)}, expected one id of 0..{len(first_seen) - 1} per class")

    def replay(cex):
        seq = [int(cex.values.get(f"cls{p}") or 0) for p in range(L)]
        c = _calibrator([CLASSES[k](1) for k in seq])
        first_seen = []
        for k in seq:
            if CLASSES[k].__name__ not in first_seen:
                first_seen.append(CLASSES[k].__name__)
        tab = dict(c.samplers_id_table)
        bad = set(tab) != set(first_seen) or sorted(tab.values()) != list(range(len(first_seen)))
        return bad, f"Calibrator(samplers={[CLASSES[k].__name__ for k in seq]}).samplers_id_table = {tab}; must give each of {first_seen} one id of 0..{len(first_seen) - 1}"

    return Case(name, body, replay)


# ---- label + recovery scenarios --------------------------------------------------------------------------
SCENARIOS = [
    # (initial classes, [(n_batches, replacement or None)...]) replacement = ("set_samplers"|"set_scheduler", [class indices])
    ([0, 1], [(3, None)]),
    ([0, 1, 0], [(2, None), (2, None)]),
    ([0, 1], [(1, ("set_samplers", [0, 1, 2])), (3, None)]),
    ([0, 1], [(2, ("set_samplers", [1, 2])), (2, None)]),
    ([0, 1], [(2, ("set_scheduler", [2, 0])), (2, None)]),
    ([0, 1, 2], [(3, ("set_samplers", [2, 1])), (2, ("set_scheduler", [3, 2])), (2, None)]),
    ([1], [(1, ("set_samplers", [0])), (1, ("set_samplers", [1, 0])), (2, None)]),
    ([0, 1], [(2, ("set_scheduler", [1, 0])), (2, None)]),
    ([2, 1, 0], [(3, None), (1, ("set_samplers", [0, 1, 2])), (3, None)]),
    ([0, 0, 1], [(3, ("set_samplers", [1, 1, 0])), (3, None)]),
    ([0, 0, 1], [(3, ("set_samplers", [2])), (2, None)]),
    ([1, 1, 0, 1], [(4, ("set_scheduler", [3, 2])), (2, None)]),
    # append-only replacements introducing two new classes at once, in and against alphabetical order (recoverable on the pinned tree)
    ([0, 1], [(2, ("set_samplers", [0, 1, 3, 2])), (4, None)]),
    ([0, 1], [(2, ("set_scheduler", [0, 1, 2, 3])), (4, None)]),
    ([1, 0], [(2, ("set_scheduler", [1, 0, 3, 2])), (4, None)]),
]


class _Rec:
    def __init__(self):
        self.producers = []


def _run_scenario(idx, folder):
    init, steps = SCENARIOS[idx]
    del _PRODUCED[:]
    samplers = [CLASSES[k](1 + (j % 2)) for j, k in enumerate(init)]
    c = _calibrator(samplers, folder)
    tables = [dict(c.samplers_id_table)]
    with contextlib.redirect_stdout(io.StringIO()):
        for (nb, repl) in steps:
            c.calibrate(nb)  # with a folder set the calibrator itself writes a checkpoint after every batch
            tables.append(dict(c.samplers_id_table))
            if repl is not None:
                kind, cl = repl
                new = [CLASSES[k](1 + (j % 2)) for j, k in enumerate(cl)]
                if kind == "set_samplers":
                    c.set_samplers(new)
                else:
                    c.set_scheduler(RoundRobinScheduler(new))
                tables.append(dict(c.samplers_id_table))
    rec = list(_PRODUCED)
    return c, rec, tables


def _check_labels(c, rec, tables):
    msgs = []
    inv = {v: k for k, v in c.samplers_id_table.items()}
    if len(inv) != len(c.samplers_id_table):
        msgs.append(f"table not injective: {c.samplers_id_table}")
    if len(rec) != len(c.method_samp):
        msgs.append(f"{len(rec)} produced rows vs {len(c.method_samp)} labels")
    else:
        for i, (lab, nm) in enumerate(zip(c.method_samp, rec)):
            if inv.get(int(lab)) != nm:
                msgs.append(f"row {i}: label {int(lab)} maps to {inv.get(int(lab))} but the row was produced by {nm}")
                break
    for a, b in zip(tables, tables[1:]):
        for k, v in a.items():
            if b.get(k) != v:
                msgs.append(f"id of {k} changed from {v} to {b.get(k)}")
    return msgs


def _recover(folder, c, rec):
    """What the plotting helper recovers for the ids present in the history."""
    import black_it.plot.plot_results as pr

    ids = list(dict.fromkeys(int(x) for x in c.method_samp))
    truth = {}
    for lab, nm in zip(c.method_samp, rec):
        truth[int(lab)] = nm
    try:
        names = pr._get_samplers_names(folder, ids)
    except Exception as e:  # noqa: BLE001
        reraise_if_harness(e)
        return f"_get_samplers_names raised {type(e).__name__}: {e}", None, truth
    got = dict(zip(ids, names))
    return None, got, truth


def _stale(idx):
    """Scenarios of the listed known finding (id table not persisted): a class that produced rows is no longer in the final
    line-up, or its position of first appearance there differs from its id. Computed from the scenario DATA with a reference
    numbering (ids in order of first use) - never by running the code under test, so a change of the code cannot move a new
    failure into the known region."""
    init, steps = SCENARIOS[idx]
    ref = {}
    lineup = list(init)
    used = set()

    def number(seq):
        for k in seq:
            ref.setdefault(k, len(ref))

    number(lineup)
    bid = 0
    for nb, repl in steps:
        for _ in range(nb):
            used.add(lineup[bid % len(lineup)])
            bid += 1
        if repl is not None:
            lineup = list(repl[1])
            number(lineup)
            if repl[0] == "set_scheduler":
                bid = 0  # a new round-robin scheduler starts from its first sampler; set_samplers keeps the counter
    rebuilt = {}
    for k in lineup:
        rebuilt.setdefault(k, len(rebuilt))
    return any(rebuilt.get(k) != ref[k] for k in used)


def case_labels(nsc):
    name = f"labels-recovery-{nsc}scenarios"

    def body(ctx):
        sc = ctx.int("scenario", 0, nsc - 1)
        idx = int(sc)
        tmp = tempfile.mkdtemp(prefix="verif-c18-")
        try:
            c, rec, tables = _run_scenario(idx, tmp)
            msgs = _check_labels(c, rec, tables)
            ctx.prove(z3.BoolVal(not [m for m in msgs if "changed" in m]), "ids_never_reassigned", "; ".join(msgs) or f"scenario {idx}")
            ctx.prove(z3.BoolVal(not [m for m in msgs if "changed" not in m]), "label_identifies_class", "; ".join(msgs) or f"scenario {idx}")
            err, got, truth = _recover(tmp, c, rec)
            ok = err is None and got == truth
            # the obligation is a formula over the symbolic scenario so that known-finding regions can be excluded by the solver
            ctx.prove(z3.Or(z3.BoolVal(ok), sc.t != idx), "names_recoverable_from_checkpoint", err or f"scenario {idx}: recovered {got}, produced by {truth}")
            ctx.sample({"scenario": idx, "labels": [int(x) for x in c.method_samp], "table": dict(c.samplers_id_table)})
        finally:
            shutil.rmtree(tmp, ignore_errors=True)

    def replay(cex):
        idx = int(cex.values.get("scenario") or 0)
        tmp = tempfile.mkdtemp(prefix="verif-c18-")
        try:
            c, rec, tables = _run_scenario(idx, tmp)
            msgs = _check_labels(c, rec, tables)
            err, got, truth = _recover(tmp, c, rec)
            if err:
                msgs.append(err)
            elif got != truth:
                msgs.append(f"plot helper recovers {got} for the stored ids but the rows were produced by {truth}")
            return bool(msgs), f"scenario {idx} {SCENARIOS[idx]}: " + ("; ".join(msgs) or "labels and recovered names correct")
        finally:
            shutil.rmtree(tmp, ignore_errors=True)

    return Case(name, body, replay, time_budget=300)


def _region_stale(ctx):
    sc = ctx.inputs["scenario"]
    return z3.Or(*[sc == i for i in range(len(SCENARIOS)) if _stale(i)])


REGIONS = {"table-not-persisted": ("names_recoverable_from_checkpoint", _region_stale)}


def cases(tier, seed):
    cs = []
    maxL = 3 if tier == "quick" else 4
    for mut in ("update", "set_samplers", "set_scheduler"):
        for L in range(1 if mut == "set_scheduler" else 0, maxL + 1):
            cs.append(case_step(mut, L))
    for L in range(1, maxL + 1):
        cs.append(case_construct(L))
    cs.append(case_labels(len(SCENARIOS)))
    return cs


MANIFEST = {
    "category": "model_checking",
    "text": "Inductive symbolic step of the real table mutators from an arbitrary id table (free membership bits, free ids under the bijection invariant) with a symbolic replacement list: z3 proves ids are never reassigned and new classes get fresh, pairwise distinct ids that re-establish the table invariant; real calibrations with symbolic replacement scenarios prove every stored label is the id of the producing class; checkpoints written by the real calibrator are read by the real plotting helper and the recovered names compared with the producers.",
    "note": "Pool of 4 classes, lists <= 3; the recovery clause executes real files; the part of the recovery clause that fails on this tree (table not persisted: after a replacement the pickled scheduler no longer determines the ids) is a listed known finding, any other failure is a violation.",
}
