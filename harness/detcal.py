"""Whole-calibration symbolic runs for the relational properties C01 (determinism) and C05 (resume == never stopped)."""
from __future__ import annotations

import contextlib
import copy
import json as _json
import warnings

import numpy as np
import z3

import black_it.calibrator as cal
import black_it.samplers.halton as shalton
import black_it.utils.json_pandas_checkpointing as jp
from black_it.samplers.best_batch import BestBatchSampler
from black_it.samplers.cors import CORSSampler
from black_it.samplers.gaussian_process import GaussianProcessSampler
from black_it.samplers.halton import HaltonSampler
from black_it.samplers.particle_swarm import ParticleSwarmSampler
from black_it.samplers.r_sequence import RSequenceSampler
from black_it.samplers.random_forest import RandomForestSampler
from black_it.samplers.random_uniform import RandomUniformSampler
from black_it.samplers.xgboost import XGBoostSampler
from harness.calib import SaveRecorder, model_uf, world
from harness.losses import AckFun
from harness.samplers import OpStub, MinimizeResult, index_rng, sampler_world
from symx.core import Sym, cur, lift
from symx.memfs import H5Stub, JsonStub, MemFS, PandasStub, make_path_class
from symx.npx import NPX, patched
from symx.stubs import SymGenerator, sym_default_rng

_R, _I = z3.RealSort(), z3.IntSort()
UF_HALTON = z3.Function("halton_point", _I, _I, _R)  # (sequence index, base) -> coordinate in [0,1)
UF_SNAP = z3.Function("snap_to_grid", _R, _I, _R)  # (value, coordinate) -> grid element


def halton_uf(sample_size, bases, n_start):
    """black_it.samplers.halton.halton as an uninterpreted pure function of (index, base) (its arithmetic is C13's subject)."""
    out = np.empty((sample_size, len(bases)), dtype=object)
    for k in range(sample_size):
        for j, b in enumerate(bases):
            out[k, j] = Sym(UF_HALTON(lift(n_start) + 1 + k, z3.IntVal(int(b))))
    return out


def snap_uf(data, param_grid):
    """digitize_data as an uninterpreted pure function per coordinate (its correctness is C17's subject)."""
    data = np.asarray(data, dtype=object)
    out = np.empty(data.shape, dtype=object)
    for r in range(data.shape[0]):
        for c in range(data.shape[1]):
            v = lift(data[r, c])
            v = z3.ToReal(v) if v.sort().kind() == z3.Z3_INT_SORT else v
            out[r, c] = Sym(UF_SNAP(v, z3.IntVal(c)))
    return out


class MinimizeUF:
    """scipy.optimize.minimize as a deterministic function of its start point and call index within the sampler state."""

    F = None

    @staticmethod
    def minimize(fun, x0, method=None, bounds=None, constraints=None, **kw):
        c = cur()
        f = c.scratch.setdefault("minimize_uf", AckFun("minimize", nout=len(x0)))
        if f.nout != len(x0):
            f = c.scratch.setdefault(f"minimize_uf{len(x0)}", AckFun(f"minimize{len(x0)}", nout=len(x0)))
        key = list(x0) + list(getattr(fun, "key", []))
        # the constraints (exclusion balls around known points, radius from the sampler's batch counter) are part of the problem:
        # represent each by its value at a fixed probe point
        probe = np.zeros(len(x0))
        for cons in constraints or []:
            key.append(cons["fun"](probe))
        res = f(key)
        for v, (lo, hi) in zip(res, bounds):
            c.solver.add(v.t >= lift(lo), v.t <= lift(hi))
        return MinimizeResult(np.array(res, dtype=object))


def rbf_key(points, losses):
    """The CORS interpolant only feeds the (stubbed) optimiser: it is represented by the data it was built from."""

    def fit(x):
        return 0.0

    fit.key = list(np.asarray(points, dtype=object).ravel()) + list(np.asarray(losses, dtype=object).ravel())
    return fit


class ConsistentLoss:
    """Uninterpreted user loss (Ackermann): shared by all runs compared in one path."""

    def __init__(self):
        self.F = AckFun("userloss")

    def compute_loss(self, sim, real):
        return self.F(list(np.asarray(sim, dtype=object).ravel()))[0]

    def __deepcopy__(self, memo):
        return self


def make_sampler(kind, B, seed):
    if kind == "uniform":
        return RandomUniformSampler(B, random_state=seed, max_deduplication_passes=0)
    if kind == "uniform-dedup":
        return RandomUniformSampler(B, random_state=seed, max_deduplication_passes=1)
    if kind == "halton":
        return HaltonSampler(B, random_state=seed, max_deduplication_passes=0)
    if kind == "rseq":
        return RSequenceSampler(B, random_state=seed, max_deduplication_passes=0)
    if kind == "bestbatch":
        return BestBatchSampler(B, random_state=seed, max_deduplication_passes=0, perturbation_range=2)
    if kind == "pso":
        return ParticleSwarmSampler(B, random_state=seed)
    if kind == "cors":
        return CORSSampler(B, max_samples=20, random_state=seed)
    if kind == "xgb":
        return XGBoostSampler(B, random_state=seed, candidate_pool_size=2, max_deduplication_passes=0)
    if kind == "rf":
        return RandomForestSampler(B, random_state=seed, candidate_pool_size=2, max_deduplication_passes=0, n_classes=3)
    if kind == "gp":
        return GaussianProcessSampler(B, random_state=seed, candidate_pool_size=2, max_deduplication_passes=0, acquisition="mean")
    raise KeyError(kind)


@contextlib.contextmanager
def det_world(fs=None):
    """Calibrator + samplers + (optionally) the checkpoint code, all lifted."""
    import black_it.samplers.cors as scors
    import black_it.samplers.particle_swarm as spso
    import black_it.samplers.r_sequence as srseq
    import black_it.samplers.surrogate as ssur

    with contextlib.ExitStack() as st:
        # the final argsort of calibrate() is replaced by the identity permutation (all loss orderings would be forked twice);
        # that the return value is the sorted history is C02's result
        st.enter_context(world(argsort_identity=True))
        st.enter_context(sampler_world(rng=index_rng, stub_rbf=True))  # integer index arrays are concretised (numpy needs ints)
        for m in (shalton, srseq, spso, ssur, scors):
            st.enter_context(patched(m, digitize_data=snap_uf))
        st.enter_context(patched(shalton, halton=halton_uf))
        st.enter_context(patched(scors, op=MinimizeUF, rbf=rbf_key))
        if fs is not None:
            P = make_path_class(fs)
            st.enter_context(patched(jp, np=NPX, json=JsonStub(_json), pickle=DeepcopyPickle(), Path=P, h5py=H5Stub(fs), pd=PandasStub(fs)))
            st.enter_context(patched(cal, Path=P, np=cal.np))  # keep the calibrator's current np proxy
        st.enter_context(warnings.catch_warnings())
        warnings.simplefilter("ignore")
        yield


class DeepcopyPickle:
    """pickle contract for objects holding symbolic state: a round trip preserves attribute values (deep copy).
    (That the real scheduler/loss objects ARE picklable is checked with the real pickle in C04.)"""

    def dump(self, obj, f, **kw):
        f._store("pickle", copy.deepcopy(obj))

    def load(self, f, **kw):
        import pickle

        return copy.deepcopy(f._load("pickle", pickle.UnpicklingError))


def make_calibrator(ctx, lineup, S, ctor_seeds, n_jobs, verbose, folder, shared, E=1, conv=None):
    samplers = [make_sampler(kind, B, ctor_seeds[i]) for i, (kind, B) in enumerate(lineup)]
    return cal.Calibrator(loss_function=shared["loss"], real_data=np.zeros((2, 1)), model=shared["model"], parameters_bounds=[[0.0], [1.0]],
                          parameters_precision=[0.25], ensemble_size=E, samplers=samplers, convergence_precision=conv, verbose=verbose,
                          saving_folder=folder, random_state=S, n_jobs=n_jobs)


def history(c):
    return {"params": np.asarray(c.params_samp, dtype=object), "losses": np.asarray(c.losses_samp, dtype=object), "series": np.asarray(c.series_samp, dtype=object),
            "batch": np.asarray(c.batch_num_samp, dtype=object), "method": np.asarray(c.method_samp, dtype=object)}


def histories_equal(ctx, ha, hb, label, detail):
    for k in ("params", "series", "losses", "batch", "method"):
        a, b = ha[k], hb[k]
        if a.shape != b.shape:
            ctx.prove(z3.BoolVal(False), label, f"{detail}: {k} shapes {a.shape} vs {b.shape}")
            continue
        cs = [lift(x) == lift(y) for x, y in zip(a.ravel(), b.ravel())]
        ctx.prove(z3.And(*cs) if cs else z3.BoolVal(True), label, f"{detail}: {k}")


def shared_functions(ctx):
    return {"loss": ConsistentLoss(), "model": model_uf(1, 2, 1)}


@contextlib.contextmanager
def rl_baton(agent_first=False):
    """Real RL-scheduler threads under the baton scheduler with a FIXED schedule: always the first enabled thread (the
    calibration thread runs until it blocks) or always the last one (a freshly started / woken agent runs first). That the
    outcome does not depend on the schedule is C10's result; here the two extreme schedules are run."""
    import threading

    import black_it.schedulers.rl.envs.base as envbase
    import black_it.schedulers.rl.rl_scheduler as rls
    from harness.C10 import _install_flag
    from symx.baton import Baton, make_shims
    from symx.npx import sym_float

    holder = {}
    baton = Baton((lambda n, labels: n - 1) if agent_first else (lambda n, labels: 0))
    holder["b"] = baton
    BThread, BQueue = make_shims(lambda: holder["b"])

    class _Threading:
        Thread = BThread

        def __getattr__(self, n):
            return getattr(threading, n)

    prop = _install_flag(lambda: holder["b"])
    with patched(envbase, Queue=BQueue), patched(rls, threading=_Threading(), float=sym_float, np=NPX), patched(rls.RLScheduler, _stopped=prop):
        try:
            yield baton
        finally:
            baton.kill_all()


def make_rl_calibrator(ctx, lineup, S, ctor_seeds, n_jobs, verbose, folder, shared, eps, alpha, E=1):
    from black_it.schedulers.rl.agents.epsilon_greedy import MABEpsilonGreedy
    from black_it.schedulers.rl.envs.mab import MABCalibrationEnv
    from black_it.schedulers.rl.rl_scheduler import RLScheduler

    samplers = [make_sampler(kind, B, ctor_seeds[i]) for i, (kind, B) in enumerate(lineup)]
    n_eff = len(samplers) + (0 if any(k == "halton" for k, _ in lineup) else 1)
    sched = RLScheduler(samplers, MABEpsilonGreedy(n_eff, alpha, eps, random_state=ctor_seeds[-1]), MABCalibrationEnv(n_eff), random_state=ctor_seeds[-2])
    return cal.Calibrator(loss_function=shared["loss"], real_data=np.zeros((2, 1)), model=shared["model"], parameters_bounds=[[0.0], [1.0]],
                          parameters_precision=[0.25], ensemble_size=E, scheduler=sched, verbose=verbose, saving_folder=folder, random_state=S, n_jobs=n_jobs)
