"""C20 — time-series filters equal their definitions; the moment summary is finite whatever the numerical kernels return."""
from __future__ import annotations

from fractions import Fraction

import numpy as np
import z3

import black_it.utils.time_series as ts
from harness.common import Case, f
from symx.core import UF_LOG, Sym, canon, cur, lift
from symx.npx import NPX, patched
from symx.core import reraise_if_harness  # noqa: E402

LEVEL = "other"
FUNCTIONS = ["black_it.utils.time_series:hp_filter", "black_it.utils.time_series:hp_cycle_lamb1600_filter",
             "black_it.utils.time_series:log_and_hp_filter", "black_it.utils.time_series:diff_log_demean_filter", "black_it.utils.time_series:get_mom_ts_1d"]
NUMBER_MODEL = "filters: R exact; log uninterpreted; the sparse solve replaced by its contract (returns x with A x = b). Moment summary: bit-precise binary64 (z3 FloatingPoint(11,53)) for sign / abs / multiply / nan_to_num, pow uninterpreted with its IEEE special-value cases"
EXPLANATION = (
    "The real hp_filter builds its matrix through a dense, symbolic stand-in for scipy.sparse (eye, dia_matrix, .T, .dot, +, scalar *), "
    "validated against real scipy on concrete inputs at check start. For a symbolic series and symbolic lambda > 0 z3 proves that the "
    "matrix handed to spsolve is I + lambda K'K with K the (n-2) x n second-difference operator and that the right-hand side is the "
    "series; with the solver contract the returned pair satisfies cycle + trend = series and (I + lambda K'K) trend = series. The three "
    "wrappers are proved equal to their definitions (lambda = 1600, log minus HP trend of the log, de-meaned first difference of the log: "
    "same length, sums to zero). Moment summary: the real get_mom_ts_1d runs on an opaque series with numpy's reductions, scipy.stats.skew/kurtosis and "
    "statsmodels' acf replaced by functions returning ARBITRARY binary64 values (finite, NaN, +inf, -inf - the weakest contract, which covers "
    "constant series, overflow and every length); z3 proves in the floating-point theory that each of the 18 entries of the returned array is finite."
)
ASSUMPTIONS = [
    "scipy.sparse.linalg.spsolve(A, b) returns x with A x = b (UMFPACK accuracy outside the claim)",
    "dense stand-in for sps.eye / sps.dia_matrix / .T / .dot: differential validation against real scipy at check start",
    "np.log uninterpreted; series positive for the log filters",
    "moment summary: np.mean/np.std/skew/kurtosis/acf may return any double; np.power(x, e) for 0<e<1: NaN->NaN, +inf->+inf, finite x>=0 -> finite >=0; np.sign, abs, *, nan_to_num are the IEEE/numpy operations",
]
OUTSIDE = ["what scipy.stats.skew/kurtosis and statsmodels acf actually return (compiled third-party code): the finiteness claim holds for ANY doubles they return, exceptions raised by them are outside",
           "lengths above 8 (quick) / 24 (thorough)", "numerical accuracy of the sparse solver"]
REQUIRED_LABELS = ["hp_matrix", "hp_rhs_and_split", "hp_optimality", "wrapper_cycle1600", "wrapper_log_hp", "wrapper_diff_log_demean", "moments_finite"]


def bounds(tier):
    return {"quick": "series length 3..8, lambda symbolic > 0; moment summary: any length (series opaque), 16 kernel outputs arbitrary binary64", "thorough": "series length 3..24, 32, 40, 48; moment summary as quick"}[tier]


class Dense:
    """Dense symbolic stand-in for the scipy.sparse matrices hp_filter builds."""

    def __init__(self, a):
        self.a = np.asarray(a, dtype=object)

    @property
    def shape(self):
        return self.a.shape

    @property
    def T(self):  # noqa: N802
        return Dense(self.a.T.copy())

    def dot(self, o):
        o = o.a if isinstance(o, Dense) else np.asarray(o, dtype=object)
        n, k = self.a.shape
        if o.ndim == 1:
            return np.array([sum(self.a[i, j] * o[j] for j in range(k)) for i in range(n)], dtype=object)
        m = o.shape[1]
        out = np.empty((n, m), dtype=object)
        for i in range(n):
            for j in range(m):
                s = 0
                for t in range(k):
                    if not (isinstance(self.a[i, t], (int, float)) and self.a[i, t] == 0) and not (isinstance(o[t, j], (int, float)) and o[t, j] == 0):
                        s = s + self.a[i, t] * o[t, j]
                out[i, j] = s
        return Dense(out)

    def __add__(self, o):
        return Dense(self.a + (o.a if isinstance(o, Dense) else o))

    __radd__ = __add__

    def __mul__(self, s):
        out = np.empty(self.a.shape, dtype=object)
        for idx in np.ndindex(*self.a.shape):
            v = self.a[idx]
            out[idx] = 0 if (isinstance(v, (int, float)) and v == 0) else v * s
        return Dense(out)

    __rmul__ = __mul__


class SpsStub:
    def __init__(self):
        self.solves = []

    @staticmethod
    def eye(n, m=None, k=0, dtype=None, format=None):  # noqa: A002
        m = n if m is None else m
        a = np.zeros((n, m), dtype=object)
        for i in range(n):
            if 0 <= i + k < m:
                a[i, i + k] = 1.0
        return Dense(a)

    identity = eye

    @staticmethod
    def diags(diagonals, offsets=0, shape=None, format=None, dtype=None):  # noqa: A002
        """scipy.sparse.diags: diagonal number k holds diagonals[r][i] at (i, i+k) for k >= 0 and (i-k, i) for k < 0."""
        offs = [offsets] if np.isscalar(offsets) else list(offsets)
        diagonals = [diagonals] if np.isscalar(offsets) and np.ndim(diagonals[0]) == 0 else list(diagonals)
        if shape is None:
            nn = len(diagonals[0]) + abs(int(offs[0]))
            shape = (nn, nn)
        n, m = shape
        a = np.zeros((n, m), dtype=object)
        for d, k in zip(diagonals, offs):
            k = int(k)
            d = np.asarray(d, dtype=object).ravel()
            for t in range(len(d)):
                i, j = (t, t + k) if k >= 0 else (t - k, t)
                if 0 <= i < n and 0 <= j < m:
                    a[i, j] = d[t]
        return Dense(a)

    @staticmethod
    def csc_matrix(x, *a, **k):
        return x if isinstance(x, Dense) else Dense(np.asarray(x, dtype=object))

    csr_matrix = csc_matrix

    @staticmethod
    def dia_matrix(arg, shape):
        data, offsets = arg
        data = np.asarray(data, dtype=object)
        n, m = shape
        a = np.zeros((n, m), dtype=object)
        # scipy: A[i, i + k] = data[row_of_k, i + k]
        for r, k in enumerate(list(offsets)):
            for j in range(m):
                i = j - int(k)
                if 0 <= i < n and j < data.shape[1]:
                    a[i, j] = data[r, j]
        return Dense(a)

    @property
    def linalg(self):
        return self

    @staticmethod
    def csc_matrix(A):  # noqa: N803
        return A

    csr_matrix = csc_matrix

    def factorized(self, A):  # noqa: N803
        """scipy.sparse.linalg.factorized(A): a solver for systems with THIS matrix (same contract as spsolve)."""
        return lambda b: self.spsolve(A, b)

    def spsolve(self, A, b, use_umfpack=True):  # noqa: N803
        A = A.a if isinstance(A, Dense) else np.asarray(A, dtype=object)
        n = len(b)
        c = cur()
        k = len(self.solves)
        x = np.array([Sym(z3.Real(f"sol{k}_{i}")) for i in range(n)], dtype=object)
        # contract: A x = b
        for i in range(n):
            c.solver.add(lift(sum(A[i, j] * x[j] for j in range(n))) == lift(b[i]))
        self.solves.append((A, np.asarray(b, dtype=object), x))
        return x


def _K(n):
    k = np.zeros((n - 2, n))
    for i in range(n - 2):
        k[i, i], k[i, i + 1], k[i, i + 2] = 1.0, -2.0, 1.0
    return k


def _check_system(ctx, A, b, series, lam, n, label_prefix="hp"):
    K = _K(n)
    KtK = K.T @ K
    conds = []
    for i in range(n):
        for j in range(n):
            want = (1 if i == j else 0) + lift(lam) * lift(Fraction(float(KtK[i, j])))
            conds.append(lift(A[i, j]) == want)
    ctx.prove(z3.BoolVal(A.shape == (n, n)) if A.shape != (n, n) else z3.And(*conds), "hp_matrix", f"n={n}: matrix passed to the solver is I + lambda K'K")
    ctx.prove(z3.And(*[lift(b[i]) == lift(series[i]) for i in range(n)]) if len(b) == n else z3.BoolVal(False), "hp_rhs_and_split", "right-hand side is the series")


def case_hp(n):
    def body(ctx):
        stub = SpsStub()
        y = ctx.reals("y", (n,))
        lam = ctx.real("lam")
        ctx.assume(lam > 0)
        with patched(ts, np=NPX, sps=stub, spsolve=stub.spsolve):
            cycle, trend = ts.hp_filter(y, lam)
        ctx.prove(z3.BoolVal(len(stub.solves) == 1 and len(cycle) == n and len(trend) == n), "hp_rhs_and_split", "one solve, outputs of the input length")
        A, b, x = stub.solves[0]
        _check_system(ctx, A, b, y, lam, n)
        ctx.prove(z3.And(*[lift(cycle[i]) + lift(trend[i]) == lift(y[i]) for i in range(n)]), "hp_rhs_and_split", "cycle + trend = series")
        # optimality of the returned trend: (I + lam K'K) trend = series
        K = _K(n)
        KtK = K.T @ K
        ctx.prove(z3.And(*[lift(trend[i]) + lift(lam) * z3.Sum([lift(Fraction(float(KtK[i, j]))) * lift(trend[j]) for j in range(n)]) == lift(y[i]) for i in range(n)]),
                  "hp_optimality", f"n={n}")
        ctx.sample({"n": n})

    def replay(cex):
        y = np.array([float(f(cex.values.get(f"y_{i}", i * 0.5))) for i in range(n)])
        lam = float(f(cex.values.get("lam", 1600))) or 1.0
        lam = min(max(lam, 1e-3), 1e7)
        try:
            cycle, trend = ts.hp_filter(y, lam)
        except Exception as e:  # noqa: BLE001
            reraise_if_harness(e)
            return True, f"hp_filter raised {type(e).__name__}: {e}"
        K = _K(n)
        A = np.eye(n) + lam * K.T @ K
        scale = 1 + np.max(np.abs(y)) * (1 + lam)
        bad = len(cycle) != n or np.max(np.abs(cycle + trend - y)) > 1e-9 * scale or np.max(np.abs(A @ trend - y)) > 1e-7 * scale
        return bool(bad), f"n={n} lambda={lam}: max|cycle+trend-y|={np.max(np.abs(cycle + trend - y)):.3g}, max|(I+lam K'K) trend - y|={np.max(np.abs(A @ trend - y)):.3g}"

    return Case(f"hp-n{n}", body, replay)


def case_two_calls(n):
    """Two successive calls with the same length and different lambdas / series: the second is not allowed to remember the first."""

    def body(ctx):
        stub = SpsStub()
        y1, y2 = ctx.reals("y", (n,)), ctx.reals("z", (n,))
        l1, l2 = ctx.real("lam"), ctx.real("lam2")
        ctx.assume(l1 > 0)
        ctx.assume(l2 > 0)
        with patched(ts, np=NPX, sps=stub, spsolve=stub.spsolve):
            ts.hp_filter(y1, l1)
            cycle, trend = ts.hp_filter(y2, l2)
        K = _K(n)
        KtK = K.T @ K
        ctx.prove(z3.And(*[lift(cycle[i]) + lift(trend[i]) == lift(y2[i]) for i in range(n)]), "hp_rhs_and_split", "second call: cycle + trend = series")
        ctx.prove(z3.And(*[lift(trend[i]) + lift(l2) * z3.Sum([lift(Fraction(float(KtK[i, j]))) * lift(trend[j]) for j in range(n)]) == lift(y2[i]) for i in range(n)]),
                  "hp_optimality", f"n={n}: second call with another lambda on the same length")

    def replay(cex):
        v = cex.values
        y1 = np.array([float(f(v.get(f"y_{i}", i * 0.5))) for i in range(n)])
        y2 = np.array([float(f(v.get(f"z_{i}", 1.0 + (i * 7 % 5)))) for i in range(n)])
        if np.allclose(y2, y2[0]):
            y2 = np.array([1.0 + (i * 7 % 5) for i in range(n)], dtype=float)
        l1 = min(max(float(f(v.get("lam", 1600))) or 1.0, 1e-3), 1e7)
        l2 = min(max(float(f(v.get("lam2", 6.25))) or 6.25, 1e-3), 1e7)
        if abs(l1 - l2) < 1e-9:
            l2 = l1 * 100 if l1 < 1e4 else l1 / 100
        try:
            ts.hp_filter(y1, l1)
            cycle, trend = ts.hp_filter(y2, l2)
        except Exception as e:  # noqa: BLE001
            reraise_if_harness(e)
            return True, f"hp_filter raised {type(e).__name__}: {e}"
        K = _K(n)
        A = np.eye(n) + l2 * K.T @ K
        scale = 1 + np.max(np.abs(y2)) * (1 + l2)
        bad = np.max(np.abs(cycle + trend - y2)) > 1e-9 * scale or np.max(np.abs(A @ trend - y2)) > 1e-7 * scale
        return bool(bad), f"n={n}: hp_filter(.., {l1}) then hp_filter(y, {l2}): max|(I+lam K'K) trend - y| = {np.max(np.abs(A @ trend - y2)):.3g}"

    return Case(f"twocalls-n{n}", body, replay)


def case_wrappers(n):
    def body(ctx):
        y = ctx.reals("y", (n,), lo=None)
        for v in y:
            ctx.solver.add(v.t > 0)
        # 1) cycle at lambda 1600
        stub = SpsStub()
        with patched(ts, np=NPX, sps=stub, spsolve=stub.spsolve):
            c1600 = ts.hp_cycle_lamb1600_filter(y)
        A, b, x = stub.solves[0]
        _check_system(ctx, A, b, y, 1600, n)
        ctx.prove(z3.And(*[lift(c1600[i]) == lift(y[i]) - lift(x[i]) for i in range(n)]), "wrapper_cycle1600", "series minus the lambda=1600 trend")
        # 2) log minus HP trend of the log
        stub2 = SpsStub()
        with patched(ts, np=NPX, sps=stub2, spsolve=stub2.spsolve):
            lh = ts.log_and_hp_filter(y)
        logs = [UF_LOG(canon(lift(v))) for v in y]
        ok = len(stub2.solves) >= 1
        ctx.prove(z3.BoolVal(ok), "wrapper_log_hp", "at least one solve")
        conds = []
        for (A2, b2, x2) in stub2.solves:
            _check_system(ctx, A2, b2, [Sym(t) for t in logs], 1600, n)
        x_last = stub2.solves[-1][2]
        # every solve has the same system, hence (by the contract and uniqueness of the solution of an SPD system) the same solution
        ctx.prove(z3.And(*[lift(lh[i]) == logs[i] - lift(x_last[i]) for i in range(n)]), "wrapper_log_hp", "log(series) - HP trend of log(series)")
        # 3) de-meaned first difference of the log
        with patched(ts, np=NPX):
            dl = ts.diff_log_demean_filter(y)
        ctx.prove(z3.BoolVal(len(dl) == n), "wrapper_diff_log_demean", "same length as the input")
        d = [z3.RealVal(0)] + [logs[i] - logs[i - 1] for i in range(1, n)]
        mean = z3.Sum(d) / n
        ctx.prove(z3.And(*[lift(dl[i]) == d[i] - mean for i in range(n)]), "wrapper_diff_log_demean", "first difference of the log (first element 0) minus its mean")
        ctx.prove(z3.Sum([lift(v) for v in dl]) == 0, "wrapper_diff_log_demean", "sums to zero")

    def replay(cex):
        y0 = np.array([abs(float(f(cex.values.get(f"y_{i}", 1 + i)))) + 1e-3 for i in range(n)])
        # the only path condition of this case is y > 0: a generic positive series is an equally valid instance of the
        # counterexample when the solver's (typically near-constant) series makes the difference numerically invisible
        for y in (y0, np.array([1.0 + ((i * 37) % 11) + 0.25 * i for i in range(n)])):
            bad, info = _replay_wrappers(n, y)
            if bad:
                return bad, info
        return bad, info

    return Case(f"wrappers-n{n}", body, replay)


def _replay_wrappers(n, y):
    if True:
        try:
            c = ts.hp_cycle_lamb1600_filter(y)
            lh = ts.log_and_hp_filter(y)
            dl = ts.diff_log_demean_filter(y)
        except Exception as e:  # noqa: BLE001
            reraise_if_harness(e)
            return True, f"raised {type(e).__name__}: {e}"
        K = _K(n)
        A = np.eye(n) + 1600 * K.T @ K
        t1 = np.linalg.solve(A, y)
        t2 = np.linalg.solve(A, np.log(y))
        d = np.diff(np.log(y), prepend=np.log(y)[0])
        msgs = []
        sc = 1 + np.max(np.abs(y))
        if np.max(np.abs(c - (y - t1))) > 1e-6 * sc:
            msgs.append("hp_cycle_lamb1600_filter != series - trend(1600)")
        if np.max(np.abs(lh - (np.log(y) - t2))) > 1e-6 * (1 + np.max(np.abs(np.log(y)))):
            msgs.append("log_and_hp_filter != log - trend(log)")
        if len(dl) != n or abs(np.sum(dl)) > 1e-9 * n * (1 + np.max(np.abs(d))) or np.max(np.abs(dl - (d - d.mean()))) > 1e-12 * (1 + np.max(np.abs(d))):
            msgs.append(f"diff_log_demean_filter wrong (len {len(dl)}, sum {np.sum(dl):.3g})")
        return bool(msgs), f"n={n} y={y.tolist()}: " + ("; ".join(msgs) or "ok")


# ---------------------------------------------------------------------------------------------------------------------------
# Moment-summary clause: "the 18 numbers are finite for every finite series". The numbers come out of numpy reductions and of
# compiled third-party kernels (scipy.stats.skew/kurtosis, statsmodels acf) that cannot be encoded; what the repository's own
# code contributes - and what a change to it can break - is the IEEE special-value plumbing: sign * power(|.|), the slots of
# the result array and the final in-place nan_to_num. That part is decided bit-precisely in binary64 (z3 FloatingPoint(11,53))
# under the weakest contract for the kernels: each may return ANY double - finite, NaN, +inf, -inf.
FP64 = z3.Float64()
_RNE = z3.RNE()
UF_POW64 = z3.Function("ieee_pow", FP64, FP64, FP64)
_DMAX = z3.FPVal(float(np.finfo(np.float64).max), FP64)


class D:
    """A symbolic binary64 value: the operations get_mom_ts_1d applies to it are the IEEE ones."""

    def __init__(self, t):
        self.t = t

    @staticmethod
    def of(x):
        return x.t if isinstance(x, D) else z3.FPVal(float(x), FP64)

    def __mul__(self, o):
        return D(z3.fpMul(_RNE, self.t, D.of(o)))

    __rmul__ = __mul__

    def __abs__(self):
        return D(z3.fpAbs(self.t))


class _Series:
    """Opaque finite series of some length: only handed on to the (stubbed) reductions and kernels."""

    def __init__(self, tag):
        self.tag = tag


def _finite(t):
    return z3.And(z3.Not(z3.fpIsNaN(t)), z3.Not(z3.fpIsInf(t)))


class MomentWorld:
    """numpy / scipy.stats / statsmodels as seen by get_mom_ts_1d, with arbitrary-double contracts."""

    def __init__(self, ctx):
        self.ctx = ctx
        self.n = 0
        self.calls = []

    def fresh(self, what):
        v = z3.FP(f"{what}#{self.n}", FP64)
        self.n += 1
        self.ctx.inputs[str(v)] = v
        self.calls.append(what)
        return D(v)

    # --- numpy ---
    def zeros(self, n, *a, **k):
        return np.array([D(z3.FPVal(0.0, FP64)) for _ in range(int(n))], dtype=object)

    def mean(self, x, *a, **k):
        assert isinstance(x, _Series)
        return self.fresh(f"mean({x.tag})")

    def std(self, x, *a, **k):
        assert isinstance(x, _Series)
        return self.fresh(f"std({x.tag})")

    def diff(self, x, *a, **k):
        return _Series(f"diff({x.tag})")

    def absolute(self, x, *a, **k):
        return _Series(f"abs({x.tag})") if isinstance(x, _Series) else abs(x)

    abs = absolute

    def sign(self, x):
        t = D.of(x)
        one = z3.FPVal(1.0, FP64)
        return D(z3.If(z3.fpIsNaN(t), t, z3.If(z3.fpGT(t, z3.FPVal(0.0, FP64)), one, z3.If(z3.fpLT(t, z3.FPVal(0.0, FP64)), z3.fpNeg(one), z3.FPVal(0.0, FP64)))))

    def power(self, x, e):
        t, et = D.of(x), D.of(e)
        r = UF_POW64(t, et)
        # IEEE pow for a finite exponent in (0, 1): NaN -> NaN, +inf -> +inf, finite x >= 0 -> finite result >= 0
        self.ctx.solver.add(z3.Implies(z3.fpIsNaN(t), z3.fpIsNaN(r)), z3.Implies(z3.And(z3.fpIsInf(t), z3.fpIsPositive(t)), z3.And(z3.fpIsInf(r), z3.fpIsPositive(r))),
                            z3.Implies(z3.And(_finite(t), z3.fpGEQ(t, z3.FPVal(0.0, FP64))), z3.And(_finite(r), z3.fpGEQ(r, z3.FPVal(0.0, FP64)))))
        assert isinstance(e, float) and 0 < e < 1
        return D(r)

    def nan_to_num(self, x, copy=True, nan=0.0, posinf=None, neginf=None):  # noqa: FBT002
        pos = _DMAX if posinf is None else D.of(posinf)
        neg = z3.fpNeg(_DMAX) if neginf is None else D.of(neginf)

        def clean(t):
            return z3.If(z3.fpIsNaN(t), D.of(nan), z3.If(z3.fpIsInf(t), z3.If(z3.fpIsNegative(t), neg, pos), t))

        out = np.array([D(clean(D.of(v))) for v in x], dtype=object)
        if copy:
            return out
        x[:] = out
        return x

    inf, nan = float("inf"), float("nan")

    def array(self, x, *a, **k):
        return np.array(x, dtype=object)

    asarray = array

    def empty(self, n, *a, **k):
        return self.zeros(n)

    def concatenate(self, parts, *a, **k):
        return np.array([v for p in parts for v in np.asarray(p, dtype=object).ravel()], dtype=object)

    hstack = concatenate

    # --- scipy.stats ---
    def skew(self, x, *a, **k):
        return self.fresh(f"skew({x.tag})")

    def kurtosis(self, x, *a, **k):
        return self.fresh(f"kurtosis({x.tag})")

    # --- statsmodels ---
    @property
    def tsa(self):
        return self

    def acf(self, x, nlags=None, fft=None, **k):
        return np.array([self.fresh(f"acf({x.tag})[{i}]") for i in range(int(nlags) + 1)], dtype=object)  # an ndarray, as the real acf


def _moment_bindings(w):
    """Whatever names the module binds numpy, scipy.stats.skew/kurtosis and statsmodels' acf (or statsmodels.api) to - found by
    IDENTITY of the bound object, not by name - are rebound to the arbitrary-double stand-ins."""
    import numpy as _real_np
    import scipy.stats as _st
    import statsmodels.api as _sm
    from statsmodels.tsa.stattools import acf as _acf

    out = {"np": w}
    for k, v in vars(ts).items():
        if v is _real_np:
            out[k] = w
        elif v is _st.skew:
            out[k] = w.skew
        elif v is _st.kurtosis:
            out[k] = w.kurtosis
        elif v is _acf or v is _sm.tsa.acf:
            out[k] = w.acf
        elif v is _sm or v is _sm.tsa:
            out[k] = w
    return out


def case_moments():
    def body(ctx):
        w = MomentWorld(ctx)
        with patched(ts, **_moment_bindings(w)):
            out = ts.get_mom_ts_1d(_Series("x"))
        ctx.prove(z3.BoolVal(isinstance(out, np.ndarray) and out.shape == (18,)), "moments_finite", "the summary has 18 entries")
        for i in range(min(18, len(out))):
            ctx.prove(_finite(D.of(out[i])), "moments_finite", f"entry {i} of the moment summary is finite whatever doubles (NaN, +-inf included) the reductions and kernels return")
        ctx.sample({"kernel_calls": w.calls})

    def replay(cex):
        return replay_moments(cex.values)

    return Case("moment-summary", body, replay, solver_timeout_ms=120000)


def replay_moments(values):
    """(a) the model's kernel outputs injected into the real function running on real numpy; (b) natural degenerate series with
    the real kernels (constant, constant differences, huge values overflowing the reductions)."""
    import math
    import warnings

    def val(prefix, default=0.0):
        for k, v in values.items():
            if k.startswith(prefix + "#") and v is not None:
                return float(v)
        return default

    msgs = []
    with warnings.catch_warnings():
        warnings.simplefilter("ignore")

        class _SM:
            class tsa:  # noqa: N801
                @staticmethod
                def acf(x, nlags=5, fft=False):  # noqa: FBT002
                    tag = "x" if len(x) == 8 else "abs(diff(x))"
                    return np.array([val(f"acf({tag})[{i}]") for i in range(nlags + 1)])

        x = np.linspace(0.0, 1.0, 8) ** 2
        try:
            with patched(ts, np=np, skew=lambda a: val("skew(x)") if len(a) == 8 else val("skew(abs(diff(x)))"),
                         kurtosis=lambda a: val("kurtosis(x)") if len(a) == 8 else val("kurtosis(abs(diff(x)))"), sm=_SM):
                out = ts.get_mom_ts_1d(x)
            if np.shape(out) != (18,) or not np.all(np.isfinite(out)):
                msgs.append(f"kernel outputs of the model injected: summary {np.asarray(out).tolist()}")
        except Exception as e:  # noqa: BLE001
            reraise_if_harness(e)
            msgs.append(f"get_mom_ts_1d raised {type(e).__name__}: {e}")
        for name, series in (("constant", np.full(8, 3.0)), ("linear", np.arange(10.0)), ("alternating", np.array([1.0, -1.0] * 6)),
                             ("huge", np.array([1.7e308, 1.6e308] * 5)), ("huge alternating", np.array([1.7e308, -1.7e308] * 5)), ("zeros", np.zeros(9))):
            try:
                out = ts.get_mom_ts_1d(series)
                if np.shape(out) != (18,) or not np.all(np.isfinite(out)):
                    bad = [i for i, v in enumerate(np.asarray(out).ravel()) if not math.isfinite(v)]
                    msgs.append(f"{name} series of length {len(series)}: entries {bad} not finite")
            except Exception as e:  # noqa: BLE001
                reraise_if_harness(e)
                msgs.append(f"{name} series: get_mom_ts_1d raised {type(e).__name__}: {e}")
    return bool(msgs), "; ".join(msgs[:4]) or "all summaries finite (injected kernel outputs and six degenerate series with the real kernels)"


def precheck(tier, seed):
    """Differential validation of the dense stand-in against real scipy.sparse."""
    import scipy.sparse as sps

    rng = np.random.default_rng(seed)
    cnt = 0
    for n in range(3, 12):
        offsets = np.array([0, 1, 2])
        data = np.repeat([[1.0], [-2.0], [1.0]], n, axis=1) * rng.uniform(0.5, 2.0, size=(3, n))
        Kr = sps.dia_matrix((data, offsets), shape=(n - 2, n))
        Kd = SpsStub.dia_matrix((data, offsets), shape=(n - 2, n))
        assert np.allclose(Kr.toarray(), Kd.a.astype(float)), "dia_matrix stand-in differs from scipy"
        lam = float(rng.uniform(0.1, 100))
        Ar = (sps.eye(n, n) + lam * Kr.T.dot(Kr)).toarray()
        Ad = (SpsStub.eye(n, n) + lam * Kd.T.dot(Kd)).a.astype(float)
        assert np.allclose(Ar, Ad), "I + lam K'K stand-in differs from scipy"
        bands = [rng.uniform(0.5, 2.0, size=n - abs(k)) for k in (-2, -1, 0, 1, 2)]
        assert np.allclose(sps.diags(bands, offsets=[-2, -1, 0, 1, 2], format="csc").toarray(), SpsStub.diags(bands, offsets=[-2, -1, 0, 1, 2], format="csc").a.astype(float)), "diags stand-in differs from scipy"
        assert np.allclose(sps.eye(n, n, format="csc").toarray(), SpsStub.eye(n, n, format="csc").a.astype(float))
        cnt += 4
    return {"proxy_validations": cnt, "validated": cnt}


def cases(tier, seed):
    ns = range(3, 9) if tier == "quick" else list(range(3, 25)) + [32, 40, 48]
    cs = [case_hp(n) for n in ns]
    cs += [case_two_calls(n) for n in (list(ns)[:3] if tier == "quick" else [3, 4, 6, 9, 16])]
    cs += [case_wrappers(n) for n in (list(ns)[:4] if tier == "quick" else [3, 4, 5, 6, 8, 12, 16, 24, 32])]
    cs.append(case_moments())
    return cs


MANIFEST = {
    "category": "other",
    "text": "Symbolic execution of the real hp_filter and the three derived filters with a symbolic series and lambda: z3 proves the linear system handed to the sparse solver is exactly (I + lambda K'K) x = series, hence (solver contract) cycle + trend = series and the HP optimality condition, and that each wrapper equals its definition (lambda 1600; log minus HP trend of log; de-meaned first log-difference of equal length and zero sum), for every length within the bound. The real get_mom_ts_1d is executed with every reduction/kernel output an arbitrary binary64 value (NaN and infinities included) and z3 proves bit-precisely (floating-point theory) that all 18 entries returned are finite.",
    "note": "Moment summary: what scipy.stats / statsmodels return is not encoded - they are given the weakest contract (any double), so the claim is about the repository's own special-value handling (sign*power, slots, in-place nan_to_num). spsolve replaced by its contract; scipy.sparse constructors by a dense stand-in validated differentially; exact reals for the filters.",
}
