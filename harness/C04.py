"""C04 — a checkpoint restores the calibrator state exactly."""
from __future__ import annotations

import contextlib
import io
import shutil
import tempfile
import warnings

import numpy as np
import z3

import black_it.calibrator as cal
import black_it.utils.json_pandas_checkpointing as jp
import black_it.utils.sqlite3_checkpointing as sq
from harness.ckpt import NUMERIC, PLAIN, compare_states, fs_world, make_calibrator, model, model2d, state_of, symbolise_history
from harness.common import Case, f
from symx.core import lift
from symx.memfs import MemFS
from symx.core import reraise_if_harness  # noqa: E402

LEVEL = "model_checking"
FUNCTIONS = [
    "black_it.calibrator:Calibrator.create_checkpoint", "black_it.calibrator:Calibrator.restore_from_checkpoint", "black_it.calibrator:Calibrator.calibrate",
    "black_it.utils.json_pandas_checkpointing:save_calibrator_state", "black_it.utils.json_pandas_checkpointing:load_calibrator_state",
    "black_it.utils.sqlite3_checkpointing:save_calibrator_state", "black_it.utils.sqlite3_checkpointing:load_calibrator_state",
]
NUMBER_MODEL = "R exact for the numeric history; the CSV text path is the contract 'exact iff float_precision=round_trip, else within one ulp'"
EXPLANATION = (
    "The real create_checkpoint / save_calibrator_state / load_calibrator_state / restore_from_checkpoint run against an in-memory file "
    "system whose json, pickle, pandas and h5py stand-ins implement written contracts (the real pickle is executed on the real scheduler and "
    "loss objects). The numeric history is symbolic, the folder pre-state (absent / earlier checkpoint of the same run with fewer rows / "
    "checkpoint of a different run with r' rows) and the scheduler kind are symbolic choices; z3 proves every restored piece of state equal "
    "to the saved one. A concrete calibrate() with a folder set is followed by a restore and compared with the live object. Every model of a "
    "discharged path and every counterexample is replayed with the real files, for both the JSON/CSV/HDF5 and the SQLite back-end."
)
ASSUMPTIONS = [
    "json/pickle/np.save/HDF5 float64 storage round-trip exactly (exercised concretely in every replay)",
    "pandas.read_csv returns the written double exactly iff float_precision='round_trip'; the default C parser may be off by one ulp (pandas documentation; reproduced in the replay on real doubles)",
    "the SQLite back-end stores arrays through np.save/np.load (binary): its round trip is executed concretely on the solver's models, not encoded",
]
OUTSIDE = ["exactness of repr/float(), gzip, HDF5 and pickle themselves", "NaN payload bits (NaN must come back as NaN, +-inf as the same infinity)", "histories above 4 rows x 2 parameters"]
REQUIRED_LABELS = ["restore_equals_saved", "calibrate_leaves_checkpoint_of_live_state"]


def bounds(tier):
    return {"quick": "history 3..4 rows x 1..2 params, ensemble 1..2, N 3, D 1..2; pre-state in {absent, same run r<rows, other run r' in {1, rows, rows+1}}; scheduler kind in {round-robin, RL}; one real calibrate(2..3) with folder",
            "thorough": "adds convergence-break run, MSM loss, ensemble 2 with 2 params, 5 pre-state sizes"}[tier]


FOLDER = "/memfs/ckpt"


def case_roundtrip(P, E, loss, special=False):
    name = f"roundtrip-P{P}-E{E}-{loss}" + ("-nan-inf" if special else "")

    def body(ctx):
        prestate = ctx.int("prestate", 0, 2)
        sched = ctx.int("scheduler_kind", 0, 1)
        rprime = ctx.int("other_rows", 0, 2)
        ps, sk = int(prestate), int(sched)
        c = make_calibrator("rr" if sk == 0 else "rl", folder=None, n_batches=0 if sk == 1 else 2, P=P, E=E, loss=loss)
        if sk == 1:
            c.current_batch_index = 2
        rows = 4
        symbolise_history(ctx, c, "h", rows=rows)
        if special:
            # IEEE special values are legal losses / series values (a diverging model): kept concrete next to the symbolic cells
            c.losses_samp[1] = float("nan")
            c.losses_samp[2] = float("inf")
            c.series_samp[0, 0, 0, 0] = float("nan")
            c.series_samp[3, 0, 1, 0] = float("-inf")
        fs = MemFS()
        with fs_world(fs), warnings.catch_warnings():
            warnings.simplefilter("ignore")
            if ps == 1:
                # an earlier checkpoint of the same run (a prefix of the history)
                full = (c.params_samp, c.losses_samp, c.series_samp, c.batch_num_samp, c.method_samp, c.n_sampled_params, c.current_batch_index)
                r0 = 2
                c.params_samp, c.losses_samp, c.series_samp = full[0][:r0], full[1][:r0], full[2][:r0]
                c.batch_num_samp, c.method_samp, c.n_sampled_params, c.current_batch_index = full[3][:r0], full[4][:r0], r0, 1
                try:
                    c.create_checkpoint(FOLDER)
                except Exception as e:  # noqa: BLE001
                    reraise_if_harness(e)
                    ctx.prove(z3.Or(z3.BoolVal(False), sched.t != sk), "restore_equals_saved", f"create_checkpoint raised {type(e).__name__}: {str(e)[:120]} (scheduler kind {sk})")
                    return
                (c.params_samp, c.losses_samp, c.series_samp, c.batch_num_samp, c.method_samp, c.n_sampled_params, c.current_batch_index) = full
            elif ps == 2:
                # the folder holds the checkpoint of a DIFFERENT run with r' rows of other data
                rp = [1, rows, rows + 1][int(rprime)]
                other = make_calibrator("rr", folder=None, n_batches=1, P=P, E=E, loss=loss)
                symbolise_history(ctx, other, "o", rows=rp)
                other.create_checkpoint(FOLDER)
            saved = state_of(c)
            try:
                c.create_checkpoint(FOLDER)
            except Exception as e:  # noqa: BLE001
                reraise_if_harness(e)
                ctx.prove(z3.Or(z3.BoolVal(False), sched.t != sk), "restore_equals_saved", f"create_checkpoint raised {type(e).__name__}: {str(e)[:120]} (scheduler kind {sk})")
                return
            try:
                r = cal.Calibrator.restore_from_checkpoint(FOLDER, model if P == 1 else model2d)
            except Exception as e:  # noqa: BLE001
                reraise_if_harness(e)
                ctx.prove(z3.Or(z3.BoolVal(False), prestate.t != ps), "restore_equals_saved", f"restore raised {type(e).__name__}: {str(e)[:120]} (pre-state {ps})")
                return
            restored = state_of(r)
            # obligations are formulas over the symbolic scenario variables so that known-finding regions can be excluded
            _compare(ctx, saved, restored, prestate, ps, sched, sk)
            ctx.sample({"case": name, "prestate": ps, "scheduler": sk, "read_csv_kwargs": fs.read_csv_kwargs[-1:]})

    def replay(cex):
        v = cex.values
        return replay_roundtrip(P, E, loss, int(v.get("prestate") or 0), int(v.get("scheduler_kind") or 0), int(v.get("other_rows") or 0), v, special)

    return Case(name, body, replay, time_budget=300)


def _compare(ctx, saved, restored, prestate, ps, sched, sk):
    from harness.ckpt import arrays_equal_term

    guard = z3.Or(prestate.t != ps, sched.t != sk)
    for k in NUMERIC:
        t, why = arrays_equal_term(saved[k], restored[k])
        ctx.prove(z3.Or(t, guard), "restore_equals_saved", f"{k} {why} (pre-state {ps}, scheduler {sk})")
    bad = [k for k in PLAIN if not (restored[k] == saved[k] and type(restored[k]) is type(saved[k]))]
    ctx.prove(z3.Or(z3.BoolVal(not bad), guard), "restore_equals_saved", f"differs in {bad} (pre-state {ps}, scheduler {sk})")


def _hard_doubles(n, seed=3):
    rng = np.random.default_rng(seed)
    return rng.random(n) * 10.0 ** rng.integers(-3, 3, size=n)


def replay_roundtrip(P, E, loss, ps, sk, rprime_i, v, special=False):
    """Real files in a temporary folder; JSON back-end through the Calibrator API, SQLite back-end through its save/load."""
    rows = 4
    msgs = []
    for attempt in range(2):
        tmp = tempfile.mkdtemp(prefix="verif-c04-")
        try:
            with contextlib.redirect_stdout(io.StringIO()), warnings.catch_warnings():
                warnings.simplefilter("ignore")
                c = make_calibrator("rr" if sk == 0 else "rl", folder=None, n_batches=0 if sk == 1 else 2, P=P, E=E, loss=loss)
                if sk == 1:
                    c.current_batch_index = 2
                E_, N_, D_ = c.series_samp.shape[1:]

                def val(name, default):
                    x = v.get(name)
                    return float(f(x)) if x is not None else default

                hd = _hard_doubles(rows * (P + 1 + E_ * N_ * D_) + 8, seed=3 + attempt)
                it = iter(hd)
                use_model = attempt == 0
                c.params_samp = np.array([[val(f"hp_{r}_{p}", next(it)) if use_model else next(it) for p in range(P)] for r in range(rows)])
                c.losses_samp = np.array([val(f"hl_{r}", next(it)) if use_model else next(it) for r in range(rows)])
                c.series_samp = np.array([[[[val(f"hs_{r}_{e}_{n}_{d}", next(it)) if use_model else next(it) for d in range(D_)] for n in range(N_)] for e in range(E_)] for r in range(rows)])
                c.batch_num_samp = np.arange(rows) // 2
                c.method_samp = np.arange(rows) % 2
                c.n_sampled_params = rows
                if special:
                    c.losses_samp[1], c.losses_samp[2] = np.nan, np.inf
                    c.series_samp[0, 0, 0, 0], c.series_samp[3, 0, 1, 0] = np.nan, -np.inf
                if ps == 1:
                    full = (c.params_samp, c.losses_samp, c.series_samp, c.batch_num_samp, c.method_samp, c.n_sampled_params, c.current_batch_index)
                    c.params_samp, c.losses_samp, c.series_samp = full[0][:2], full[1][:2], full[2][:2]
                    c.batch_num_samp, c.method_samp, c.n_sampled_params, c.current_batch_index = full[3][:2], full[4][:2], 2, 1
                    c.create_checkpoint(tmp)
                    (c.params_samp, c.losses_samp, c.series_samp, c.batch_num_samp, c.method_samp, c.n_sampled_params, c.current_batch_index) = full
                elif ps == 2:
                    rp = [1, rows, rows + 1][rprime_i]
                    other = make_calibrator("rr", folder=None, n_batches=1, P=P, E=E, loss=loss)
                    rng = np.random.default_rng(9)
                    other.params_samp, other.losses_samp = rng.random((rp, P)), rng.random(rp)
                    other.series_samp = rng.random((rp, E_, N_, D_))
                    other.batch_num_samp, other.method_samp, other.n_sampled_params = np.zeros(rp, dtype=int), np.zeros(rp, dtype=int), rp
                    other.create_checkpoint(tmp)
                saved = state_of(c)
                try:
                    c.create_checkpoint(tmp)
                except Exception as e:  # noqa: BLE001
                    reraise_if_harness(e)
                    return True, f"create_checkpoint with {'RL' if sk else 'round-robin'} scheduler raised {type(e).__name__}: {str(e)[:100]}"
                try:
                    r = cal.Calibrator.restore_from_checkpoint(tmp, model if P == 1 else model2d)
                except Exception as e:  # noqa: BLE001
                    reraise_if_harness(e)
                    return True, f"restore raised {type(e).__name__}: {str(e)[:100]}"
                restored = state_of(r)
                for k in NUMERIC:
                    a, b = np.asarray(saved[k], dtype=float), np.asarray(restored[k], dtype=float)
                    if a.shape != b.shape:
                        msgs.append(f"{k}: shape {a.shape} saved, {b.shape} restored")
                    elif not np.array_equal(a, b, equal_nan=True):
                        i = np.argwhere(~((a == b) | (np.isnan(a) & np.isnan(b))))[0]
                        msgs.append(f"{k}{tuple(i)}: saved {a[tuple(i)]!r}, restored {b[tuple(i)]!r}")
                for k in PLAIN:
                    if not (restored[k] == saved[k] and type(restored[k]) is type(saved[k])):
                        msgs.append(f"{k}: {str(saved[k])[:50]!r} -> {str(restored[k])[:50]!r}")
                # SQLite back-end: same state through its own save/load (fresh folder)
                tmp2 = tempfile.mkdtemp(prefix="verif-c04s-")
                try:
                    args = (c.param_grid.parameters_bounds, c.param_grid.parameters_precision, c.real_data, c.ensemble_size, c.N, c.D, c.convergence_precision, c.verbose,
                            c.saving_folder, c.random_state, c.random_generator.bit_generator.state, "model", c.scheduler, c.loss_function, c.current_batch_index,
                            c.params_samp, c.losses_samp, c.series_samp, c.batch_num_samp, c.method_samp)
                    if sk == 0:
                        sq.save_calibrator_state(tmp2, *args)
                        back = sq.load_calibrator_state(tmp2)
                        for i, nm in [(0, "bounds"), (1, "precision"), (2, "real_data"), (15, "params_samp"), (16, "losses_samp"), (17, "series_samp"), (18, "batch_num_samp"), (19, "method_samp")]:
                            if not np.array_equal(np.asarray(back[i]), np.asarray(args[i]), equal_nan=(np.asarray(args[i]).dtype.kind == 'f')):
                                msgs.append(f"sqlite back-end: {nm} differs after the round trip")
                        if back[14] != c.current_batch_index or back[10] != _plainstate(args[10]):
                            msgs.append("sqlite back-end: counters / generator state differ")
                finally:
                    shutil.rmtree(tmp2, ignore_errors=True)
        finally:
            shutil.rmtree(tmp, ignore_errors=True)
        if msgs:
            break
    return bool(msgs), f"P={P} E={E} pre-state={['absent', 'same run (2 rows)', 'other run'][ps]} scheduler={'RL' if sk else 'round-robin'}: " + ("; ".join(msgs[:4]) or "restored state identical")


def _plainstate(s):
    from harness.ckpt import _plain

    return _plain(s)


def case_after_calibrate(conv, nb):
    name = f"after-calibrate-conv{conv}-n{nb}"

    def body(ctx):
        fs = MemFS()
        with fs_world(fs), warnings.catch_warnings():
            warnings.simplefilter("ignore")
            c = make_calibrator("rr", folder=FOLDER, n_batches=0, P=1, E=1, conv=conv)
            with contextlib.redirect_stdout(io.StringIO()):
                c.calibrate(nb)
            live = state_of(c)
            ok_files = all((FOLDER + "/" + n) in fs.files for n in ("calibration_params.json", "scheduler_pickled.pickle", "loss_function_pickled.pickle", "calibration_results.csv", "series_samp.h5"))
            ctx.prove(z3.BoolVal(ok_files), "calibrate_leaves_checkpoint_of_live_state", f"files present: {sorted(fs.files)}")
            if not ok_files:
                return
            r = cal.Calibrator.restore_from_checkpoint(FOLDER, model)
            compare_states(ctx, live, state_of(r), "calibrate_leaves_checkpoint_of_live_state", f"after calibrate({nb}) [ran {c.current_batch_index}]: ")

    def replay(cex):
        tmp = tempfile.mkdtemp(prefix="verif-c04c-")
        try:
            with contextlib.redirect_stdout(io.StringIO()), warnings.catch_warnings():
                warnings.simplefilter("ignore")
                c = make_calibrator("rr", folder=tmp, n_batches=0, P=1, E=1, conv=conv)
                c.calibrate(nb)
                live = state_of(c)
                try:
                    r = cal.Calibrator.restore_from_checkpoint(tmp, model)
                except Exception as e:  # noqa: BLE001
                    reraise_if_harness(e)
                    return True, f"restore after calibrate({nb}) raised {type(e).__name__}: {e}"
                rs = state_of(r)
            msgs = []
            for k in NUMERIC:
                a, b = np.asarray(live[k], dtype=float), np.asarray(rs[k], dtype=float)
                if a.shape != b.shape or not np.array_equal(a, b):
                    msgs.append(f"{k} differs (shape {a.shape} vs {b.shape})" + ("" if a.shape != b.shape else f": first {a.ravel()[np.argmax(a.ravel() != b.ravel())]!r} -> {b.ravel()[np.argmax(a.ravel() != b.ravel())]!r}"))
            for k in PLAIN:
                if not (rs[k] == live[k] and type(rs[k]) is type(live[k])):
                    msgs.append(f"{k}: {str(live[k])[:40]!r} -> {str(rs[k])[:40]!r}")
            return bool(msgs), f"calibrate({nb}) with folder, conv={conv} (ran {c.current_batch_index}): " + ("; ".join(msgs[:4]) or "folder holds the live state")
        finally:
            shutil.rmtree(tmp, ignore_errors=True)

    return Case(name, body, replay)


def _region_other_run(ctx):
    return ctx.inputs["prestate"] == 2


def _region_rl(ctx):
    return ctx.inputs["scheduler_kind"] == 1


REGIONS = {"stale-hdf5-rows-of-other-run": ("restore_equals_saved", _region_other_run), "rl-scheduler-unpicklable": ("restore_equals_saved", _region_rl)}


def cases(tier, seed):
    cs = [case_roundtrip(1, 1, "mink"), case_roundtrip(2, 2, "mink"), case_roundtrip(1, 1, "mink", special=True), case_after_calibrate(None, 3), case_after_calibrate(None, 2)]
    if tier == "thorough":
        cs += [case_roundtrip(2, 1, "msm"), case_roundtrip(1, 2, "msm"), case_roundtrip(3, 1, "mink"), case_roundtrip(2, 3, "mink"),
               case_after_calibrate(0, 4), case_after_calibrate(1, 5), case_after_calibrate(None, 6), case_after_calibrate(3, 6)]
    else:
        cs.append(case_after_calibrate(0, 3))
    return cs


MANIFEST = {
    "category": "model_checking",
    "text": "The real checkpoint writer/loader/restore code runs on an in-memory file system with contract stand-ins for json, pickle (real pickle on the real objects), pandas and h5py; history values are symbolic and the folder pre-state and scheduler kind are symbolic choices. z3 proves restored state == saved state piece by piece (so a one-ulp loss through the CSV text path, stale rows of an earlier run, an unpicklable scheduler are satisfiable differences), and that the folder left by calibrate() holds the live state. Solver models and counterexamples are replayed on real files for both back-ends.",
    "note": "Exactness of json/pickle/HDF5/np.save is a stated contract (exercised in replays); the CSV parser cannot be encoded - the claim is that the repo requests the exact parser; SQLite back-end covered by concrete round trips of solver models only; history <= 4 rows.",
}
