"""C12 — deduplication replaces only repeated points and gives up only after its passes."""
from __future__ import annotations

import itertools

import numpy as np
import z3

import black_it.samplers.base as sbase
from black_it.samplers.base import BaseSampler
from black_it.search_space import SearchSpace
from harness.common import Case
from symx.core import Sym, lift
from symx.npx import NPX, patched
from symx.core import reraise_if_harness  # noqa: E402

LEVEL = "other"
FUNCTIONS = ["black_it.samplers.base:BaseSampler.sample", "black_it.samplers.base:BaseSampler.find_and_get_duplicates"]
NUMBER_MODEL = "points are vectors of symbolic Ints on the lattice {0,1,2}^d (every equality pattern between history, draw and redraws is a path)"
EXPLANATION = (
    "The real BaseSampler.sample / find_and_get_duplicates run on symbolic lattice points: history rows and every point the scripted "
    "generator will ever return are symbolic, so z3 enumerates the feasible equality patterns (paths). On each path the run is compared "
    "with an executable specification consuming the same symbolic draws: sizes requested call by call, untouched non-repeats, returned "
    "multiset, shape, and 'a repeat is returned only when all passes were spent'."
)
ASSUMPTIONS = [
    "np.unique(axis=0, return_counts=True) on object rows is re-implemented (grouping by equality; group order differs from numpy's sort order, which only permutes which redraw lands on which repeated position — the property speaks of the multiset)",
    "points live on a 3-valued lattice per coordinate (equality patterns with more than 3 distinct values per coordinate need dims=2)",
]
OUTSIDE = ["batch size > 3, history > 3 rows, budgets > 3 (quick) / 6 (thorough)"]
REQUIRED_LABELS = ["requested_sizes", "non_repeats_untouched", "returned_multiset", "shape", "repeat_only_after_all_passes"]


def bounds(tier):
    return {"quick": "dims 1..2, batch size 1..2 (3 with budget<=1), history 0..2 rows (repeats allowed), pass budget 0..3",
            "thorough": "dims 1..2, batch size 1..3, history 0..3 rows, pass budget 0..6 (budget>3 with batch size<=2)"}[tier]


class Script(BaseSampler):
    def __init__(self, batch_size, passes, source, dtype=object):
        super().__init__(batch_size, random_state=0, max_deduplication_passes=passes)
        self.source = source
        self.dtype = dtype
        self.sizes = []

    def sample_batch(self, batch_size, search_space, existing_points, existing_losses):
        self.sizes.append(batch_size)
        rows = [self.source() for _ in range(batch_size)]
        a = np.empty((batch_size, len(rows[0]) if rows else 0), dtype=self.dtype)
        for i, r in enumerate(rows):
            for j, v in enumerate(r):
                a[i, j] = v
        return a


def _row_eq(a, b):
    return z3.And(*[lift(x) == lift(y) for x, y in zip(a, b)])


def _beq(a, b):
    """decided equality (forks if the path condition leaves it open)."""
    for x, y in zip(a, b):
        if not bool(x == y):
            return False
    return True


def reference(history, draw, B, P, eq):
    batch = [draw() for _ in range(B)]
    first = list(batch)
    sizes = [B]
    touched = set()
    passes = 0
    for _ in range(P):
        allrows = list(history) + batch
        D = [i for i in range(B) if sum(1 for r in allrows if eq(r, batch[i])) > 1]
        if not D:
            break
        new = [draw() for _ in D]
        sizes.append(len(D))
        passes += 1
        for pos, row in zip(D, new):
            batch[pos] = row
            touched.add(pos)
    allrows = list(history) + batch
    still = [i for i in range(B) if sum(1 for r in allrows if eq(r, batch[i])) > 1]
    return batch, first, sizes, touched, passes, still


def case(dims, B, H, P, fixed_hist=None):
    """fixed_hist: concrete (distinct) history rows instead of symbolic ones - keeps batch size 3 in two dimensions within reach
    (needed for: two different repeated points AND a fresh point sharing one coordinate with each, in one pass)."""
    name = f"d{dims}-B{B}-H{H}-P{P}" + ("-fixedhist" if fixed_hist else "")
    npts = B * (P + 1)

    def body(ctx):
        pts = [[ctx.int(f"p{k}_{d}", 0, 2) for d in range(dims)] for k in range(npts)]
        hist = [[ctx.int(f"h{k}_{d}", 0, 2) for d in range(dims)] for k in range(H)] if not fixed_hist else [list(r) for r in fixed_hist]
        hist_arr = np.empty((H, dims), dtype=object)
        for i, r in enumerate(hist):
            for j, v in enumerate(r):
                hist_arr[i, j] = v
        it = iter(pts)
        s = Script(B, P, lambda: next(it))
        space = SearchSpace([[0.0] * dims, [2.0] * dims], [1.0] * dims, verbose=False)
        with patched(sbase, np=NPX, print=lambda *a, **k: None):
            out = s.sample(space, hist_arr, np.zeros(H))
        it2 = iter(pts)
        rb, first, rsizes, touched, passes, still = reference(hist, lambda: next(it2), B, P, _beq)
        ctx.prove(z3.BoolVal(out.shape == (B, dims)), "shape", f"shape {out.shape}")
        ctx.prove(z3.BoolVal(list(s.sizes) == list(rsizes)), "requested_sizes", f"requested {s.sizes}, specification {rsizes}")
        if list(s.sizes) != list(rsizes) or out.shape != (B, dims):
            return
        ctx.prove(z3.And(*[_row_eq(out[i], first[i]) for i in range(B) if i not in touched]) if len(touched) < B else z3.BoolVal(True),
                  "non_repeats_untouched", f"positions never flagged: {[i for i in range(B) if i not in touched]}")
        perms = [z3.And(*[_row_eq(out[i], rb[p[i]]) for i in range(B)]) for p in itertools.permutations(range(B))]
        ctx.prove(z3.Or(*perms), "returned_multiset", "returned multiset = first draw with repeats substituted by the redraws")
        # a repeat may only be returned when every pass was spent
        allrows = hist + [list(r) for r in out]
        rep = z3.Or(*[z3.And(*[z3.BoolVal(True)] + [z3.Or(*[_row_eq(out[i], r) for k, r in enumerate(allrows) if k != H + i])]) for i in range(B)]) if len(allrows) > 1 else z3.BoolVal(False)
        ctx.prove(z3.Implies(rep, z3.BoolVal(len(s.sizes) - 1 == P)), "repeat_only_after_all_passes", f"{len(s.sizes) - 1} redraw passes of {P}")
        ctx.sample({"case": name, "sizes": list(s.sizes)})

    def replay(cex):
        v = cex.values
        pts = [[int(v.get(f"p{k}_{d}") or 0) for d in range(dims)] for k in range(npts)]
        hist = [[int(v.get(f"h{k}_{d}") or 0) for d in range(dims)] for k in range(H)] if not fixed_hist else [list(r) for r in fixed_hist]
        it = iter(pts)
        s = Script(B, P, lambda: [float(x) for x in next(it)], dtype=float)
        space = SearchSpace([[0.0] * dims, [2.0] * dims], [1.0] * dims, verbose=False)
        import contextlib
        import io

        try:
            with contextlib.redirect_stdout(io.StringIO()):
                out = s.sample(space, np.array(hist, dtype=float).reshape(H, dims), np.zeros(H))
        except Exception as e:  # noqa: BLE001
            reraise_if_harness(e)
            return True, f"sample raised {type(e).__name__}: {e} (history={hist}, draws={pts})"
        it2 = iter(pts)
        rb, first, rsizes, touched, passes, still = reference(hist, lambda: next(it2), B, P, lambda a, b: list(a) == list(b))
        msgs = []
        if out.shape != (B, dims):
            msgs.append(f"shape {out.shape}")
        if list(s.sizes) != list(rsizes):
            msgs.append(f"requested sizes {s.sizes}, specification {rsizes}")
        else:
            got = sorted(tuple(map(float, r)) for r in out)
            exp = sorted(tuple(map(float, r)) for r in rb)
            if got != exp:
                msgs.append(f"returned {got}, specification {exp}")
            for i in range(B):
                if i not in touched and list(map(float, out[i])) != list(map(float, first[i])):
                    msgs.append(f"non-repeated position {i} was altered")
            allrows = [tuple(map(float, r)) for r in hist] + [tuple(map(float, r)) for r in out]
            rep = any(allrows.count(tuple(map(float, r))) > 1 for r in out)
            if rep and len(s.sizes) - 1 != P:
                msgs.append(f"a repeat was returned after only {len(s.sizes) - 1} of {P} passes")
        return bool(msgs), f"history={hist} draws={pts} B={B} P={P}: " + ("; ".join(msgs) or "as specified")

    return Case(name, body, replay, time_budget=400, split=(8 if fixed_hist else 4) if (dims == 2 and B == 2 and H + P >= 3) or B * (P + 1) + H >= 7 else 0)


def cases(tier, seed):
    cs = []
    if tier == "quick":
        combos = [(1, 1, h, p) for h in (0, 1, 2) for p in (0, 1, 2, 3)]
        combos += [(1, 2, h, p) for h in (0, 1, 2) for p in (0, 1, 2)]
        combos += [(1, 2, 1, 3), (1, 3, 1, 1), (2, 2, 1, 1), (2, 2, 2, 2), (2, 1, 2, 3), (1, 3, 0, 1)]
    else:
        combos = [(d, 1, h, p) for d in (1, 2) for h in (0, 1, 2, 3) for p in range(7)]
        combos += [(1, 2, h, p) for h in (0, 1, 2, 3) for p in range(4)]
        combos += [(2, 2, h, p) for h in (0, 1, 2) for p in range(3)]
        combos += [(1, 3, h, p) for h in (0, 1, 2) for p in (0, 1, 2)]
        combos += [(1, 2, 0, 6), (1, 2, 1, 5), (1, 2, 1, 4)]
    for d, B, H, P in combos:
        cs.append(case(d, B, H, P))
    # two dimensions, batch of three on a fixed two-point history: two DIFFERENT repeated points in one pass plus a third point
    cs.append(case(2, 3, 2, 1, fixed_hist=[(0, 1), (2, 0)]))
    return cs


MANIFEST = {
    "category": "other",
    "text": "Symbolic execution of the real BaseSampler.sample/find_and_get_duplicates over symbolic lattice points: every feasible equality pattern among history, first draw and redraws is a z3-enumerated path, on which the run is proved equal to an executable specification on the same symbolic draws (sizes requested per pass, untouched fresh points, returned multiset, shape, repeats only after the whole budget).",
    "note": "np.unique(axis=0) on object rows is a re-implementation (validated by concrete replays through the real numpy); bounded batch size/history/budget; lattice {0,1,2}^d.",
}
