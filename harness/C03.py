"""C03 — every proposed parameter vector belongs to the declared search space."""
from __future__ import annotations

import warnings
from fractions import Fraction

import numpy as np
import z3

import black_it.samplers.halton as shalton
import black_it.samplers.r_sequence as srseq
import black_it.search_space as ss
from black_it.samplers.best_batch import BestBatchSampler
from black_it.samplers.cors import CORSSampler
from black_it.samplers.gaussian_process import GaussianProcessSampler
from black_it.samplers.halton import HaltonSampler
from black_it.samplers.particle_swarm import ParticleSwarmSampler
from black_it.samplers.r_sequence import RSequenceSampler
from black_it.samplers.random_forest import RandomForestSampler
from black_it.samplers.random_uniform import RandomUniformSampler
from black_it.samplers.xgboost import XGBoostSampler
from black_it.search_space import SearchSpace
from harness.common import Case, f
from harness.samplers import index_rng, object_real_rng, sampler_world
from symx.core import Sym, cur, lift, sym_ite, SymBool
from symx.npx import patched
from symx.stubs import scripted_rng
from symx.core import reraise_if_harness  # noqa: E402

LEVEL = "other"
FUNCTIONS = [
    "black_it.samplers.base:BaseSampler.sample", "black_it.samplers.halton:HaltonSampler.sample_batch", "black_it.samplers.r_sequence:RSequenceSampler.sample_batch",
    "black_it.samplers.random_uniform:RandomUniformSampler.sample_batch", "black_it.samplers.best_batch:BestBatchSampler.sample_batch",
    "black_it.samplers.particle_swarm:ParticleSwarmSampler.sample_batch", "black_it.samplers.particle_swarm:ParticleSwarmSampler._do_step",
    "black_it.samplers.surrogate:MLSurrogateSampler.sample_batch", "black_it.samplers.surrogate:MLSurrogateSampler.sample_candidates",
    "black_it.samplers.random_forest:RandomForestSampler.prepare_data_for_classifier", "black_it.samplers.xgboost:XGBoostSampler.fit",
    "black_it.samplers.gaussian_process:GaussianProcessSampler.fit", "black_it.samplers.cors:CORSSampler.sample_batch",
    "black_it.search_space:SearchSpace.__init__", "black_it.utils.base:digitize_data", "black_it.utils.base:get_closest",
]
NUMBER_MODEL = "R exact; lower bounds symbolic (any sign and scale by translation), widths/precisions from a set of aligned and non-aligned configurations; draws, losses, history indices, learner outputs symbolic"
EXPLANATION = (
    "Each of the nine built-in samplers' real sample() runs twice in succession on a real SearchSpace whose lower bounds are symbolic and "
    "whose range is or is not a multiple of the precision; history points are symbolic grid indices, losses free reals (ties and negative "
    "values included), all random draws uninterpreted, learners/optimiser contract stubs. On every path z3 proves the batch has shape "
    "(batch_size, dims) and every coordinate equals some element of that parameter's grid."
)
ASSUMPTIONS = [
    "HaltonSampler._halton / RSequenceSampler._r_sequence return arbitrary points of [0,1)^d in the symbolic cases (that the real generators do is C13's subject); one concrete-seed case per sampler runs the real generators end to end",
    "learners, scipy minimize/betabinom/erfc: contract stubs (results in documented ranges); the CORS rbf interpolant only feeds the stubbed optimiser and is replaced by a constant",
    "particle swarm second step: products of symbolic terms abstracted by uninterpreted products with sign lemmas (over-approximates reachable positions, sound for 'result is on the grid')",
    "widths and precisions are concrete per configuration; grids of 3..5 points per axis",
]
OUTSIDE = ["histories containing the same point twice (scikit-learn's GP regression is singular on duplicated points with equal losses: remark in DESIGN.md)", "dims > 2 (quick) / 3 (thorough)", "floating rounding of the step arithmetic (an exact-real claim; the replay runs binary64)", "histories longer than 3 rows"]
REQUIRED_LABELS = ["shape", "on_grid", "declared_grid"]

# (width, precision): aligned, non-aligned, non-aligned small, wide, overshoot
CONFIGS = {"aligned": (Fraction(1), Fraction(1, 4)), "nonaligned": (Fraction(1), Fraction(3, 10)), "short": (Fraction(7, 10), Fraction(1, 4)), "wide": (Fraction(1000), Fraction(300)),
           # the range falls short of a multiple of the precision by less than the 1e-7 end-point tolerance: the top grid value lies ABOVE the upper bound
           "overshoot": (Fraction(1) - Fraction(5, 10**8), Fraction(1, 4))}


def declared_grid(lo, cfg):
    """The grid the specification DECLARES (independent of SearchSpace's own arithmetic): lo, lo+precision, ... up to the last
    step not beyond the upper bound (with the documented 1e-7 end-point tolerance)."""
    rng, prec = CONFIGS[cfg]
    kmax = int((rng + Fraction(1, 10**7)) / prec)
    return [lo + k * prec for k in range(kmax + 1)]


def bounds(tier):
    return {"quick": "nine samplers x {aligned, non-aligned} spaces, dims 1..2, batch 1..2, history 2..3 rows, two successive sample() calls, symbolic lower bounds/draws/losses",
            "thorough": "adds 'short' and 'wide' configurations, dims 3 for the cheap samplers, batch 3"}[tier]


def _mk(kind, B):
    if kind == "halton":
        return HaltonSampler(B, random_state=1, max_deduplication_passes=0)
    if kind == "rseq":
        return RSequenceSampler(B, random_state=1, max_deduplication_passes=0)
    if kind == "uniform":
        return RandomUniformSampler(B, random_state=1, max_deduplication_passes=0)
    if kind == "bestbatch":
        return BestBatchSampler(B, random_state=1, max_deduplication_passes=0, perturbation_range=3)
    if kind == "pso":
        return ParticleSwarmSampler(B, random_state=1)
    if kind == "pso-global":
        return ParticleSwarmSampler(B, random_state=1, global_minimum_across_samplers=True)
    if kind == "cors":
        return CORSSampler(B, max_samples=20, random_state=1)
    if kind == "xgb":
        return XGBoostSampler(B, random_state=1, candidate_pool_size=2, max_deduplication_passes=0)
    if kind == "rf":
        return RandomForestSampler(B, random_state=1, candidate_pool_size=2, max_deduplication_passes=0, n_classes=3)
    if kind == "gp-mean":
        return GaussianProcessSampler(B, random_state=1, candidate_pool_size=2, max_deduplication_passes=0, acquisition="mean")
    raise KeyError(kind)


_FIXED_U = [Fraction(37, 100), Fraction(81, 100), Fraction(5, 100), Fraction(63, 100), Fraction(99, 100), Fraction(0)]


def _unit_points(n, d, tag):
    """Points of [0,1)^d. In the call selected as symbolic one row (rotating) is fully symbolic, the other rows and the other
    call use fixed rationals: rows/calls are independent for these samplers, so this cuts the cross product of snapping forks."""
    c = cur()
    k = c.scratch.get("unit_calls", 0)
    c.scratch["unit_calls"] = k + 1
    symcall, symrow = c.scratch.get("sym_call", 0), c.scratch.get("sym_row", 0)
    a = np.empty((n, d), dtype=object)
    for i in range(n):
        for j in range(d):
            if k == symcall and i == symrow % n:
                v = c.real(f"u{tag}{k}_{i}_{j}")
                c.solver.add(v.t >= 0, v.t < 1)
                a[i, j] = v
            else:
                a[i, j] = _FIXED_U[(3 * k + 2 * i + j) % len(_FIXED_U)]
    return a


def _stub_halton(self, nb_samples, dims):
    self._sequence_index += nb_samples
    return _unit_points(nb_samples, dims, "h")


def _stub_rseq(self, nb_samples, dims):
    self._sequence_index += nb_samples
    return _unit_points(nb_samples, dims, "r")


def _grid_pick(ctx, grid, name):
    """a symbolic element of the grid (ite chain over a symbolic index)."""
    i = ctx.int(name, 0, len(grid) - 1)
    r = grid[len(grid) - 1]
    for j in range(len(grid) - 2, -1, -1):
        r = sym_ite(SymBool(i.t == j), grid[j], r)
    return r


SYMBOLIC_RNG = ("halton", "rseq", "uniform", "bestbatch", "cors")


def case(kind, cfgs, B, rows, sym_call=0, sym_row=0, ncalls=2):
    dims = len(cfgs)
    name = f"{kind}-{'_'.join(cfgs)}-B{B}-r{rows}-c{sym_call}r{sym_row}n{ncalls}"

    def body(ctx):
        # pso / surrogates: real numpy generator (concrete draws); symbolic: lower bounds, history indices, losses, learner outputs
        with sampler_world(rng=index_rng if kind in SYMBOLIC_RNG else object_real_rng, stub_rbf=True), warnings.catch_warnings():
            warnings.simplefilter("ignore")
            ctx.scratch["sym_call"], ctx.scratch["sym_row"] = sym_call, sym_row
            ctx.recip_mode = True
            ctx.mul_abstract = kind.startswith("pso")
            los = [ctx.real(f"lo{d}") for d in range(dims)]
            his = [los[d] + CONFIGS[cfgs[d]][0] for d in range(dims)]
            prec = [CONFIGS[cfgs[d]][1] for d in range(dims)]
            space = SearchSpace([los, his], prec, verbose=False)
            grids = space.param_grid
            decl = [declared_grid(los[d], cfgs[d]) for d in range(dims)]
            for d in range(dims):
                ctx.prove(z3.BoolVal(len(grids[d]) == len(decl[d])) if len(grids[d]) != len(decl[d]) else z3.And(*[lift(a) == lift(b) for a, b in zip(grids[d], decl[d])]),
                          "declared_grid", f"coordinate {d} ({cfgs[d]}): the space's grid has {len(grids[d])} points, the declared one {len(decl[d])}")
            pts = np.empty((rows, dims), dtype=object)
            for r in range(rows):
                for d in range(dims):
                    if kind.startswith("pso"):
                        pts[r, d] = grids[d][(2 * r + d + 1) % len(grids[d])]  # on-grid, symbolic through the lower bound only
                    else:
                        pts[r, d] = _grid_pick(ctx, grids[d], f"hi{r}_{d}")
            losses = np.array([ctx.real(f"hl{r}") for r in range(rows)], dtype=object)
            # history rows pairwise distinct (what deduplication aims at); repeated rows are outside the claim
            if not kind.startswith("pso"):
                for r1 in range(rows):
                    for r2 in range(r1 + 1, rows):
                        ctx.assume(z3.Or(*[ctx.inputs[f"hi{r1}_{d}"] != ctx.inputs[f"hi{r2}_{d}"] for d in range(dims)]))
            s = _mk(kind, B)
            with patched(shalton.HaltonSampler, _halton=_stub_halton), patched(srseq.RSequenceSampler, _r_sequence=_stub_rseq):
                for call in range(ncalls):
                    ctx.scratch["cur_call"] = call
                    out = s.sample(space, pts, losses)
                    ctx.prove(z3.BoolVal(getattr(out, "shape", None) == (B, dims)), "shape", f"{kind} call {call}: shape {getattr(out, 'shape', None)}")
                    if getattr(out, "shape", None) != (B, dims):
                        return
                    for r in range(B):
                        for d in range(dims):
                            ctx.prove(z3.Or(*[lift(out[r, d]) == lift(g) for g in decl[d]]), "on_grid", f"{kind} call {call}: row {r} coordinate {d} ({cfgs[d]})")
                    if call == 0:
                        pts = np.vstack((pts, np.asarray(out, dtype=object)))
                        losses = np.hstack((losses, [ctx.real(f"hl{rows + j}") for j in range(B)]))
            ctx.sample({"case": name})

    def replay(cex):
        return replay_concrete(kind, cfgs, B, rows, cex.values, ncalls)

    heavy = kind in ("bestbatch", "cors")
    return Case(name, body, replay, time_budget=240, split=4 if heavy else 0, solver_timeout_ms=8000)


def _real_sampler(kind, B):
    if kind == "xgb":
        return XGBoostSampler(B, random_state=1, candidate_pool_size=6, max_deduplication_passes=0, n_estimators=2)
    if kind == "rf":
        return RandomForestSampler(B, random_state=1, candidate_pool_size=6, max_deduplication_passes=0, n_classes=3, n_estimators=3)
    if kind == "gp-mean":
        return GaussianProcessSampler(B, random_state=1, candidate_pool_size=6, max_deduplication_passes=0, acquisition="mean", optimize_restarts=0)
    return _mk(kind, B)


def replay_concrete(kind, cfgs, B, rows, v, ncalls=2):
    """Real samplers (real learners/optimiser), real SearchSpace; random draws scripted from the model where the real code draws them."""
    import black_it.samplers.best_batch as sbest
    from harness.samplers import betabinom_stub

    dims = len(cfgs)
    lo = [float(f(v.get(f"lo{d}", 0.0))) for d in range(dims)]
    hi = [lo[d] + float(CONFIGS[cfgs[d]][0]) for d in range(dims)]
    prec = [float(CONFIGS[cfgs[d]][1]) for d in range(dims)]
    try:
        space = SearchSpace([lo, hi], prec, verbose=False)
    except Exception as e:  # noqa: BLE001
        reraise_if_harness(e)
        return False, f"search space rejected: {e}"
    grids = space.param_grid
    decl = [[float(Fraction(lo[d]) + k * CONFIGS[cfgs[d]][1]) for k in range(int((CONFIGS[cfgs[d]][0] + Fraction(1, 10**7)) / CONFIGS[cfgs[d]][1]) + 1)] for d in range(dims)]
    pts = np.array([[grids[d][(2 * r + d + 1) % len(grids[d])] if kind.startswith("pso") else grids[d][min(int(v.get(f"hi{r}_{d}") or 0), len(grids[d]) - 1)] for d in range(dims)] for r in range(rows)], dtype=float).reshape(rows, dims)
    losses = np.array([float(f(v.get(f"hl{r}", r + 1.0))) for r in range(rows)], dtype=float)
    msgs = []
    for d in range(dims):
        if len(grids[d]) != len(decl[d]) or any(abs(a - b) > 1e-9 * (1 + abs(b)) for a, b in zip(grids[d], decl[d])):
            msgs.append(f"SearchSpace grid of coordinate {d} is {grids[d].tolist()}, declared [{lo[d]}, {hi[d]}] step {prec[d]} gives {decl[d]}")
    try:
        with warnings.catch_warnings():
            warnings.simplefilter("ignore")
            ctxs = [scripted_rng(v)]
            if kind == "bestbatch":
                ctxs.append(patched(sbest, betabinom=betabinom_stub))
            with ctxs[0], (ctxs[1] if len(ctxs) > 1 else patched()):
                s = _real_sampler(kind, B)
                for call in range(ncalls):
                    out = s.sample(space, pts, losses)
                    if out.shape != (B, dims):
                        msgs.append(f"call {call}: shape {out.shape}")
                        break
                    for r in range(B):
                        for d in range(dims):
                            # element of the space's grid AND (up to binary64 rounding of lo + k*precision) of the declared grid
                            if not any(out[r, d] == g for g in grids[d]) or not any(abs(out[r, d] - g) <= 1e-9 * (1 + abs(g)) for g in decl[d]):
                                msgs.append(f"call {call}: coordinate {out[r, d]!r} of row {r} is not an element of the declared grid {decl[d]} (space grid: {grids[d].tolist()})")
                    pts = np.vstack((pts, out))
                    losses = np.hstack((losses, [float(f(v.get(f"hl{rows + j}", 0.5 + j))) for j in range(B)]))
    except Exception as e:  # noqa: BLE001
        reraise_if_harness(e)
        msgs.append(f"{kind}.sample raised {type(e).__name__}: {e}")
    return bool(msgs), f"{kind} on bounds {lo}..{hi} precision {prec}, history losses {losses[:rows].tolist()}: " + ("; ".join(msgs[:3]) or "all on grid")


def case_concrete_seed(kind, cfgs, B):
    """The real quasi-random generators end to end (concrete seed), symbolic lower bounds."""
    dims = len(cfgs)
    name = f"{kind}-realgen-{'_'.join(cfgs)}-B{B}"

    def body(ctx):
        with sampler_world(rng=None):
            los = [ctx.real(f"lo{d}") for d in range(dims)]
            his = [los[d] + CONFIGS[cfgs[d]][0] for d in range(dims)]
            prec = [CONFIGS[cfgs[d]][1] for d in range(dims)]
            space = SearchSpace([los, his], prec, verbose=False)
            decl = [declared_grid(los[d], cfgs[d]) for d in range(dims)]
            s = _mk(kind, B)
            for call in range(2):
                out = s.sample(space, np.zeros((0, dims)), np.zeros(0))
                ctx.prove(z3.BoolVal(out.shape == (B, dims)), "shape", f"{kind} shape")
                for r in range(B):
                    for d in range(dims):
                        ctx.prove(z3.Or(*[lift(out[r, d]) == lift(g) for g in decl[d]]), "on_grid", f"{kind} (real generator) row {r} coordinate {d}")

    def replay(cex):
        return replay_concrete(kind, cfgs, B, 0, cex.values)

    return Case(name, body, replay, time_budget=120)


def cases(tier, seed):
    cs = []
    for k in ("halton", "rseq"):
        cs.append(case(k, ("nonaligned",), 2, 0, 0, 0))
        cs.append(case(k, ("aligned", "nonaligned"), 2, 0, 1, 1))
        cs.append(case_concrete_seed(k, ("nonaligned", "aligned"), 3))
    cs.append(case("uniform", ("nonaligned",), 2, 0))
    cs.append(case("uniform", ("aligned", "nonaligned"), 2, 2))
    cs.append(case("bestbatch", ("nonaligned",), 1, 2))
    cs.append(case("bestbatch", ("aligned", "nonaligned"), 1, 2, ncalls=1))
    cs.append(case("bestbatch", ("aligned",), 2, 2, ncalls=1))
    cs.append(case("bestbatch", ("nonaligned",), 1, 3, ncalls=1))
    cs.append(case("bestbatch", ("overshoot",), 1, 2, ncalls=1))
    cs.append(case("uniform", ("overshoot", "aligned"), 2, 0))
    cs.append(case("uniform", ("short",), 2, 0))  # remainder of the range larger than half a step
    cs.append(case("halton", ("short", "aligned"), 2, 0, 0, 1))
    cs.append(case("halton", ("overshoot",), 2, 0, 0, 1))
    for k in ("pso", "pso-global"):
        cs.append(case(k, ("nonaligned",), 1, 2))
        cs.append(case(k, ("short",), 1, 3))
    cs.append(case("cors", ("nonaligned",), 1, 2))
    cs.append(case("cors", ("aligned", "nonaligned"), 1, 2, sym_call=1))
    cs.append(case("cors", ("aligned",), 2, 2, sym_call=0, ncalls=1))
    for k in ("xgb", "rf", "gp-mean"):
        cs.append(case(k, ("nonaligned",), 1, 2))
        cs.append(case(k, ("aligned", "nonaligned"), 2 if k != "rf" else 1, 2))
    if tier == "thorough":
        for k in ("halton", "rseq"):
            cs.append(case(k, ("short", "wide"), 2, 0, 0, 1))
            cs.append(case(k, ("aligned", "nonaligned", "short"), 1, 0, 1, 0))
        cs.append(case("uniform", ("short", "wide", "aligned"), 3, 2))
        cs.append(case("bestbatch", ("short",), 1, 3))
        cs.append(case("bestbatch", ("nonaligned", "short"), 1, 2, ncalls=1))
        cs.append(case("bestbatch", ("wide",), 1, 3))
        for k in ("cors", "xgb", "rf", "gp-mean"):
            if k != "gp-mean":  # a 3-point grid forces repeated history points, on which scikit-learn's GP is singular (outside the stated assumption)
                cs.append(case(k, ("short",), 2, 3))
            cs.append(case(k, ("wide", "nonaligned"), 1, 2))
        for k in ("pso", "pso-global"):
            cs.append(case(k, ("wide",), 1, 2))
            cs.append(case(k, ("aligned",), 2, 2, ncalls=1))
    return cs


MANIFEST = {
    "category": "other",
    "text": "Symbolic execution of the real sample() of all nine built-in samplers (two successive calls) on real SearchSpace objects with symbolic lower bounds and ranges that are or are not multiples of the precision, symbolic on-grid histories, free losses and uninterpreted draws: z3 proves on every path that the batch has batch_size rows x dims columns and that each coordinate is an exact element of its grid - the cases (non-aligned bounds, later calls, particular histories) where clipping to a bound is not snapping.",
    "note": "Exact reals (float step accumulation only in the binary64 replay); quasi-random generators replaced by arbitrary points of [0,1)^d in the symbolic cases (+ one real-generator case each); learners/optimiser are contract stubs; widths/precisions enumerated (aligned, non-aligned, short, wide), dims <= 2 quick.",
}
