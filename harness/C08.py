"""C08 — the loss interface is pure, weight-linear and coordinate-symmetric."""
from __future__ import annotations

import itertools
import warnings
from fractions import Fraction

import numpy as np
import z3

from black_it.loss_functions.base import BaseLoss
from black_it.loss_functions.fourier import FourierLoss, gaussian_low_pass_filter, ideal_low_pass_filter
from black_it.loss_functions.gsl_div import GslDivLoss
from black_it.loss_functions.likelihood import LikelihoodLoss
from black_it.loss_functions.minkowski import MinkowskiLoss
from black_it.loss_functions.msm import MethodOfMomentsLoss
from harness.common import Case, f
from harness.losses import per_series_filter, reducing_filter, AckFun, cells_unchanged, ident_cells, loss_world
from symx.core import Sym, is_sym, lift
from symx.core import reraise_if_harness  # noqa: E402

LEVEL = "other"
FUNCTIONS = [
    "black_it.loss_functions.base:BaseLoss.compute_loss",
    "black_it.loss_functions.base:BaseLoss._filter_data",
    "black_it.loss_functions.base:BaseLoss._check_coordinate_weights",
    "black_it.loss_functions.base:BaseLoss._check_coordinate_filters",
    "black_it.loss_functions.minkowski:MinkowskiLoss.compute_loss_1d",
    "black_it.loss_functions.msm:MethodOfMomentsLoss.compute_loss_1d",
    "black_it.loss_functions.fourier:FourierLoss.compute_loss_1d",
    "black_it.loss_functions.gsl_div:GslDivLoss.compute_loss_1d",
    "black_it.loss_functions.likelihood:LikelihoodLoss.compute_loss",
]
NUMBER_MODEL = "R exact; user single-coordinate loss, filters, moment calculator, rfft, exp/log/sqrt/pow uninterpreted (Ackermann / UF)"
EXPLANATION = (
    "The real BaseLoss.compute_loss runs on symbolic data with an uninterpreted single-coordinate loss (the quantifier 'arbitrary user "
    "loss') and uninterpreted per-coordinate filters: z3 proves value == sum_i w_i f(filter_i(sim[:,:,i]), real[:,i]), zero weight removes "
    "a coordinate, joint permutation of coordinates/weights/filters and (for each built-in loss) ensemble permutation leave the value equal, "
    "inputs and the loss object are unchanged and a second evaluation gives the same term; sign/zero clauses for Minkowski, Fourier, "
    "identity/inverse-variance MSM; wrong-length weight/filter lists raise ValueError."
)
ASSUMPTIONS = [
    "user loss and filters are pure functions (uninterpreted)", "scipy minkowski modelled by its definition (sum |u-v|^p)^(1/p); rfft an uninterpreted deterministic map; moments an uninterpreted calculator (public moment_calculator= parameter)",
    "inverse-variance MSM: variances non-zero", "GSL-div ensemble symmetry is evaluated per discretisation path on concrete word statistics with 1e-12 tolerance (float sums)",
]
OUTSIDE = ["last-ulp effects of summation order", "D > 3, E > 3"]
REQUIRED_LABELS = ["weighted_sum", "zero_weight", "coordinate_symmetry", "ensemble_symmetry", "purity", "nonnegative", "zero_when_equal", "length_validation"]


def bounds(tier):
    return {"quick": "D 1..3, E 1..2, N 2; weights None/symbolic; filters None/mixed/all; all coordinate permutations; ensemble permutations E<=3 for the five built-ins; list lengths 0..4",
            "thorough": "adds E 3, N 3, Minkowski p 1..3 for sign clauses, MSM with 3 moments, GSL with nb_values 2..3"}[tier]


def _sym_data(ctx, E, N, D):
    return ctx.reals("x", (E, N, D)), ctx.reals("y", (N, D))


class UserLoss(BaseLoss):
    def __init__(self, F, **kw):
        super().__init__(**kw)
        self.F = F

    def compute_loss_1d(self, sim, real):
        return self.F(list(np.asarray(sim, dtype=object).ravel()) + list(np.asarray(real, dtype=object).ravel()))[0]


def _mkfilter(G, N):
    return per_series_filter(G, N)


def _ref_weighted(F, sim, real, weights, filters, D):
    tot = 0
    for i in range(D):
        if filters[i] is None:
            col = sim[:, :, i]
        else:
            col = np.array([filters[i](sim[j, :, i]) for j in range(sim.shape[0])], dtype=object)
        tot = tot + F(list(col.ravel()) + list(real[:, i]))[0] * weights[i]
    return tot


def case_weighted(D, E, N, wmode, fmode):
    name = f"wsum-D{D}-E{E}-N{N}-{wmode}-{fmode}"

    def body(ctx):
        with loss_world():
            sim, real = _sym_data(ctx, E, N, D)
            F = AckFun("userloss")
            G = [AckFun(f"filter{i}", nout=N) for i in range(D)]
            filters = None
            if fmode == "mixed":
                filters = [_mkfilter(G[i], N) if i % 2 == 0 else None for i in range(D)]
            elif fmode == "all":
                filters = [_mkfilter(G[i], N) for i in range(D)]
            weights = None if wmode == "default" else np.array([ctx.real(f"w{i}") for i in range(D)], dtype=object)
            loss = UserLoss(F, coordinate_weights=weights, coordinate_filters=filters)
            before = dict(vars(loss))
            s1, s2 = ident_cells(sim), ident_cells(real)
            v1 = loss.compute_loss(sim, real)
            ctx.prove(z3.BoolVal(cells_unchanged(sim, s1) and cells_unchanged(real, s2)), "purity", "input arrays untouched")
            effw = [Fraction(1.0 / D)] * D if weights is None else list(weights)  # the double nearest 1/D, as the code computes it
            efff = filters or [None] * D
            ref = _ref_weighted(F, sim, real, effw, efff, D)
            ctx.prove(lift(v1) == lift(ref), "weighted_sum", f"D={D} weights={wmode} filters={fmode}")
            napps = len(F.apps)
            v2 = loss.compute_loss(sim, real)
            ctx.prove(lift(v2) == lift(v1), "purity", "second evaluation gives the same value")
            ctx.prove(z3.BoolVal(all(vars(loss).get(k) is before[k] for k in before) and set(vars(loss)) == set(before)), "purity", "loss object attributes unchanged")
            # zero weight removes the coordinate
            if weights is not None:
                for k in range(D):
                    w0 = weights.copy()
                    w0[k] = 0
                    lz = UserLoss(F, coordinate_weights=w0, coordinate_filters=filters)
                    vz = lz.compute_loss(sim, real)
                    wk = list(weights)
                    wk[k] = 0
                    ctx.prove(lift(vz) == lift(ref) - lift(F.apps[k][1][0] * weights[k]) if False else lift(vz) == lift(_ref_weighted(F, sim, real, wk, efff, D)), "zero_weight", f"coordinate {k}")
            ctx.sample({"case": name})

    def replay(cex):
        return replay_weighted(D, E, N, wmode, fmode, cex.values)

    return Case(name, body, replay)


class _ConcreteUser(BaseLoss):
    def compute_loss_1d(self, sim, real):
        return float(np.sum(np.asarray(sim) ** 2) * 0.5 + np.sum(np.asarray(sim)[0] * np.asarray(real)) + 3 * np.sum(real))


def _cfilter(k):
    return reducing_filter(k)


def replay_weighted(D, E, N, wmode, fmode, v):
    sim = np.array([[[float(f(v.get(f"x_{e}_{n}_{d}", 0))) for d in range(D)] for n in range(N)] for e in range(E)])
    real = np.array([[float(f(v.get(f"y_{n}_{d}", 0))) for d in range(D)] for n in range(N)])
    w = None if wmode == "default" else np.array([float(f(v.get(f"w{i}", 1))) for i in range(D)])
    filters = None
    if fmode == "mixed":
        filters = [_cfilter(i) if i % 2 == 0 else None for i in range(D)]
    elif fmode == "all":
        filters = [_cfilter(i) for i in range(D)]
    loss = _ConcreteUser(coordinate_weights=w, coordinate_filters=filters)
    s0, r0 = sim.copy(), real.copy()
    try:
        got = loss.compute_loss(sim, real)
        got2 = loss.compute_loss(sim, real)
    except Exception as e:  # noqa: BLE001
        reraise_if_harness(e)
        return True, f"compute_loss raised {type(e).__name__}: {e}"
    ww = [1.0 / D] * D if w is None else list(w)
    exp = 0.0
    for i in range(D):
        col = sim[:, :, i] if not filters or filters[i] is None else np.array([filters[i](sim[j, :, i]) for j in range(E)])
        exp += loss.compute_loss_1d(col, real[:, i]) * ww[i]
    bad = abs(got - exp) > 1e-9 * (1 + abs(exp)) or got != got2 or not np.array_equal(sim, s0) or not np.array_equal(real, r0)
    return bad, f"D={D} E={E} weights={w} filters={fmode}: compute_loss={got!r} (second {got2!r}), weighted sum of 1-d losses={exp!r}, inputs intact={np.array_equal(sim, s0) and np.array_equal(real, r0)}"


def case_coord_perm(D, E, N):
    name = f"coordperm-D{D}-E{E}"

    def body(ctx):
        with loss_world():
            sim, real = _sym_data(ctx, E, N, D)
            F = AckFun("userloss")
            G = [AckFun(f"filter{i}", nout=N) for i in range(D)]
            filters = [_mkfilter(G[i], N) if i != 1 else None for i in range(D)]
            weights = np.array([ctx.real(f"w{i}") for i in range(D)], dtype=object)
            base = UserLoss(F, coordinate_weights=weights, coordinate_filters=filters).compute_loss(sim, real)
            for perm in itertools.permutations(range(D)):
                p = list(perm)
                v = UserLoss(F, coordinate_weights=weights[p], coordinate_filters=[filters[i] for i in p]).compute_loss(sim[:, :, p], real[:, p])
                ctx.prove(lift(v) == lift(base), "coordinate_symmetry", f"permutation {p}")

    def replay(cex):
        v = cex.values
        sim = np.array([[[float(f(v.get(f"x_{e}_{n}_{d}", 0))) for d in range(D)] for n in range(N)] for e in range(E)])
        real = np.array([[float(f(v.get(f"y_{n}_{d}", 0))) for d in range(D)] for n in range(N)])
        w = np.array([float(f(v.get(f"w{i}", 1))) for i in range(D)])
        filters = [_cfilter(i) if i != 1 else None for i in range(D)]
        base = _ConcreteUser(coordinate_weights=w, coordinate_filters=filters).compute_loss(sim, real)
        for perm in itertools.permutations(range(D)):
            p = list(perm)
            got = _ConcreteUser(coordinate_weights=w[p], coordinate_filters=[filters[i] for i in p]).compute_loss(sim[:, :, p], real[:, p])
            if abs(got - base) > 1e-9 * (1 + abs(base)):
                return True, f"permutation {p}: {got!r} vs {base!r}"
        return False, "symmetric"

    return Case(name, body, replay)


def _builtin(kind, ctx=None, sym=True):
    """(loss factory, needs positive data?)"""
    if kind == "minkowski1":
        return lambda: MinkowskiLoss(p=1)
    if kind == "minkowski2":
        return lambda: MinkowskiLoss(p=2)
    if kind == "minkowski3":
        return lambda: MinkowskiLoss(p=3)
    if kind == "fourier-ideal":
        return lambda: FourierLoss(frequency_filter=ideal_low_pass_filter, f=0.5)
    if kind == "fourier-gauss":
        return lambda: FourierLoss(frequency_filter=gaussian_low_pass_filter, f=0.8)
    if kind in ("msm-identity", "msm-invvar", "msm-std"):
        if sym:
            M = AckFun("moments", nout=2)

            def calc(s):
                out = M(list(np.asarray(s, dtype=object).ravel()))
                return np.array(out, dtype=object)
        else:
            def calc(s):
                s = np.asarray(s, dtype=float)
                return np.array([np.mean(s), np.mean(s**2) + 1.0])
        cov = {"msm-identity": "identity", "msm-invvar": "inverse_variance", "msm-std": "identity"}[kind]
        return lambda: MethodOfMomentsLoss(covariance_mat=cov, moment_calculator=calc, standardise_moments=(kind == "msm-std"))
    if kind == "gsl":
        return lambda: GslDivLoss(nb_values=2, nb_word_lengths=2)
    if kind == "likelihood":
        return lambda: LikelihoodLoss(h=0.7)
    raise KeyError(kind)


def _concrete_arrays(v, E, N, D):
    sim = np.array([[[float(f(v.get(f"x_{e}_{n}_{d}", 0))) for d in range(D)] for n in range(N)] for e in range(E)])
    real = np.array([[float(f(v.get(f"y_{n}_{d}", 0))) for d in range(D)] for n in range(N)])
    return sim, real


def _close(a, b, tol=1e-9):
    return abs(float(a) - float(b)) <= tol * (1 + abs(float(b)))


def case_ens_perm(kind, E, N, D):
    name = f"ensperm-{kind}-E{E}-N{N}-D{D}"

    def body(ctx):
        with loss_world(), warnings.catch_warnings():
            warnings.simplefilter("ignore")
            sim, real = _sym_data(ctx, E, N, D)
            mk = _builtin(kind)
            loss = mk()
            if kind == "msm-invvar":
                ctx.recip_mode = True
            s1 = ident_cells(sim)
            base = loss.compute_loss(sim, real)
            ctx.prove(z3.BoolVal(cells_unchanged(sim, s1)), "purity", f"{kind}: simulated data untouched")
            for perm in itertools.permutations(range(E)):
                p = list(perm)
                if p == list(range(E)):
                    continue
                v = mk().compute_loss(sim[p], real)
                if is_sym(v) or is_sym(base):
                    ctx.prove(lift(v) == lift(base), "ensemble_symmetry", f"{kind} permutation {p}")
                else:
                    ctx.prove(z3.BoolVal(_close(v, base, 1e-12)), "ensemble_symmetry", f"{kind} permutation {p} (concrete on this discretisation path: {v!r} vs {base!r})")
            used = mk()
            attrs = dict(vars(used))
            if kind != "gsl":
                other = ctx.reals("o", (E, N, D))
                used.compute_loss(other, real)  # an unrelated earlier evaluation must leave no trace
            v2 = used.compute_loss(sim, real)
            ctx.prove(lift(v2) == lift(base) if (is_sym(v2) or is_sym(base)) else z3.BoolVal(_close(v2, base, 1e-15)), "purity", f"{kind}: value does not depend on an earlier evaluation of other data")
            same = set(vars(used)) == set(attrs) and all((vars(used)[k] is attrs[k]) or (not isinstance(attrs[k], np.ndarray) and vars(used)[k] == attrs[k]) for k in attrs)
            ctx.prove(z3.BoolVal(bool(same)), "purity", f"{kind}: loss object attributes unchanged by evaluation")

    def replay(cex):
        sim, real = _concrete_arrays(cex.values, E, N, D)
        mk = _builtin(kind, sym=False)
        with warnings.catch_warnings():
            warnings.simplefilter("ignore")
            try:
                loss = mk()
                s0 = sim.copy()
                base = loss.compute_loss(sim, real)
                if not np.array_equal(sim, s0):
                    return True, f"{kind} modified its input"
                for perm in itertools.permutations(range(E)):
                    got = mk().compute_loss(sim[list(perm)], real)
                    if not _close(got, base) and not (np.isnan(got) and np.isnan(base)):
                        return True, f"{kind}: members {list(perm)} -> {got!r}, original order -> {base!r} (sim={sim.tolist()}, real={real.tolist()})"
                used = mk()
                used.compute_loss(sim * 1.7 + 0.3, real)
                again = used.compute_loss(sim, real)
                if not _close(again, base) and not (np.isnan(again) and np.isnan(base)):
                    return True, f"{kind}: second evaluation {again!r} vs first {base!r}"
            except Exception as e:  # noqa: BLE001
                reraise_if_harness(e)
                return True, f"{kind} raised {type(e).__name__}: {e}"
        return False, "symmetric"

    return Case(name, body, replay, time_budget=300, split=6 if (kind == "gsl" and E * N >= 6) else 0)


def case_sign(kind, E, N, D):
    name = f"sign-{kind}-E{E}-N{N}-D{D}"
    zero_kinds = ("minkowski1", "minkowski2", "minkowski3", "fourier-ideal", "fourier-gauss", "msm-identity")

    def body(ctx):
        with loss_world():
            sim, real = _sym_data(ctx, E, N, D)
            ctx.recip_mode = True
            ctx.mul_abstract = True  # products as uninterpreted terms with ground sign/zero lemmas (sound abstraction)
            loss = _builtin(kind)()
            v = loss.compute_loss(sim, real)
            if kind == "msm-invvar":
                # variances assumed non-zero (stated)
                for b in ctx.scratch.get("denominators", []):
                    ctx.assume(b != 0, check=False)
            ctx.prove(lift(v) >= 0, "nonnegative", kind)
            if kind in zero_kinds:
                eqsim = np.empty((E, N, D), dtype=object)
                for e in range(E):
                    eqsim[e] = real
                vz = _builtin(kind)().compute_loss(eqsim, real) if not kind.startswith("msm") else loss.compute_loss(eqsim, real)
                ctx.prove(lift(vz) == 0, "zero_when_equal", kind)
            else:
                ctx.prove(z3.BoolVal(True), "zero_when_equal", f"{kind}: clause not demanded")

    def replay(cex):
        sim, real = _concrete_arrays(cex.values, E, N, D)
        try:
            loss = _builtin(kind, sym=False)()
            v = loss.compute_loss(sim, real)
            if v < 0:
                return True, f"{kind} = {v!r} < 0 on sim={sim.tolist()} real={real.tolist()}"
            if kind in zero_kinds:
                vz = loss.compute_loss(np.array([real] * E), real)
                if abs(vz) > 1e-12:
                    return True, f"{kind} = {vz!r} when every member equals the real data"
        except Exception as e:  # noqa: BLE001
            reraise_if_harness(e)
            return True, f"{kind} raised {type(e).__name__}: {e}"
        return False, "ok"

    return Case(name, body, replay, time_budget=300, solver_timeout_ms=8000)


def case_lengths(D):
    name = f"lengths-D{D}"

    def body(ctx):
        with loss_world():
            sim, real = _sym_data(ctx, 1, 2, D)
            F = AckFun("userloss")
            for L in range(0, 5):
                for which in ("weights", "filters"):
                    kw = {}
                    if which == "weights":
                        kw["coordinate_weights"] = np.array([ctx.real(f"w{L}_{i}") for i in range(L)], dtype=object)
                    else:
                        kw["coordinate_filters"] = [None] * L
                    try:
                        UserLoss(F, **kw).compute_loss(sim, real)
                        out = "accepted"
                    except ValueError:
                        out = "ValueError"
                    except Exception as e:  # noqa: BLE001
                        reraise_if_harness(e)
                        out = type(e).__name__
                    exp = "accepted" if L == D else "ValueError"
                    ctx.prove(z3.BoolVal(out == exp), "length_validation", f"{which} of length {L} for {D} coordinates: {out}")

    def replay(cex):
        sim, real = np.ones((1, 2, D)), np.ones((2, D))
        for L in range(0, 5):
            for which in ("weights", "filters"):
                kw = {"coordinate_weights": np.ones(L)} if which == "weights" else {"coordinate_filters": [None] * L}
                try:
                    _ConcreteUser(**kw).compute_loss(sim, real)
                    out = "accepted"
                except ValueError:
                    out = "ValueError"
                except Exception as e:  # noqa: BLE001
                    reraise_if_harness(e)
                    out = type(e).__name__
                if out != ("accepted" if L == D else "ValueError"):
                    return True, f"{which} of length {L} for {D} coordinates: {out}"
        return False, "ok"

    return Case(name, body, replay)


def cases(tier, seed):
    cs = []
    for D in (1, 2, 3):
        cs.append(case_lengths(D))
        for wmode in ("default", "sym"):
            for fmode in ("none", "mixed", "all"):
                cs.append(case_weighted(D, 2 if D < 3 else 1, 2, wmode, fmode))
    cs.append(case_coord_perm(2, 2, 2))
    cs.append(case_coord_perm(3, 1, 2))
    kinds = ["minkowski2", "fourier-ideal", "fourier-gauss", "msm-identity", "msm-invvar", "msm-std", "likelihood", "gsl"]
    for k in kinds:
        cs.append(case_ens_perm(k, 2, 2, 1 if k in ("gsl",) else 2))
    for k in ["minkowski1", "minkowski2", "minkowski3", "fourier-ideal", "fourier-gauss", "msm-identity", "msm-invvar"]:
        cs.append(case_sign(k, 2, 2, 1))
    if tier == "thorough":
        for k in kinds:
            if k != "gsl":
                cs.append(case_ens_perm(k, 3, 2, 1))
        cs.append(case_ens_perm("gsl", 3, 2, 1))
        cs.append(case_ens_perm("gsl", 2, 3, 1))
        for k in ["minkowski2", "fourier-gauss", "msm-identity"]:
            cs.append(case_sign(k, 3, 3, 2))
        cs.append(case_weighted(3, 3, 3, "sym", "all"))
    return cs


MANIFEST = {
    "category": "other",
    "text": "Symbolic verification of the real BaseLoss machinery with an uninterpreted user loss and uninterpreted filters: z3 proves the weighted-sum law, zero-weight removal, coordinate and ensemble symmetry (each built-in loss executed symbolically), purity (inputs, object state, repeated evaluation), sign/zero clauses and the ValueError for wrong list lengths - relational laws over all data that single expected values cannot pin.",
    "note": "Exact reals; scipy minkowski, rfft, moments, exp/log modelled or uninterpreted as listed in the evidence; D<=3, E<=3; inverse-variance MSM assumes non-zero variances.",
}
