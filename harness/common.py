"""Shared pieces for the per-property harnesses."""
from __future__ import annotations

from fractions import Fraction

import numpy as np
import z3

from symx.core import HarnessLimit, Sym, SymBool, lift, reraise_if_harness  # noqa: F401


class Case:
    """One exploration unit: `body(ctx)` runs the real code symbolically; `replay(cex)` re-runs it concretely."""

    def __init__(self, name, body, replay, **kw):
        self.name = name
        self.body = body
        self.replay = replay
        self.kw = kw


def f(v):
    """model value -> python float (or int)."""
    if isinstance(v, Fraction):
        return float(v)
    if v is None:
        return 0.0
    return v


def objarr(vals):
    a = np.empty(len(vals), dtype=object)
    for i, v in enumerate(vals):
        a[i] = v
    return a


def objarr2(rows):
    rows = [list(r) for r in rows]
    a = np.empty((len(rows), len(rows[0]) if rows else 0), dtype=object)
    for i, r in enumerate(rows):
        for j, v in enumerate(r):
            a[i, j] = v
    return a


def T(x):
    """z3 term of a Sym / python number."""
    return lift(x)


def eq_terms(a, b):
    """z3 equality between two (possibly concrete) scalars."""
    at, bt = lift(a), lift(b)
    return at == bt


def all_eq(A, B):
    A = np.asarray(A, dtype=object)
    B = np.asarray(B, dtype=object)
    if A.shape != B.shape:
        return z3.BoolVal(False)
    cs = [eq_terms(x, y) for x, y in zip(A.ravel(), B.ravel())]
    return z3.And(*cs) if cs else z3.BoolVal(True)


def zabs(t):
    return z3.If(t >= 0, t, -t)


def no_replay(cex):
    return False, "no replayer for this obligation"


def inject(obj, name, value):
    """Set a piece of internal state for an inductive step. The harness relies on `name` BEING the state: if the object no longer
    has that attribute (renamed / re-represented), setting it would silently create a dead attribute and the step would be judged
    from a state the harness did not intend - a false alarm. That situation is reported as inconclusive instead."""
    from symx.core import Inconclusive

    if not hasattr(obj, name):
        raise Inconclusive(f"{type(obj).__name__} has no attribute {name!r} any more: the state representation this inductive step injects into has changed")
    setattr(obj, name, value)
