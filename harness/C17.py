"""C17 — grid snapping maps every value to a nearest grid element.

Encoded: the real ``black_it.utils.base.get_closest`` and ``digitize_data`` executed on object
arrays of symbolic reals (numpy's own searchsorted / fancy indexing drive the scalars).
"""
from __future__ import annotations

from fractions import Fraction

import numpy as np
import z3

import black_it.utils.base as ub
from harness.common import Case, f, objarr
from symx.core import UF_RND, Sym, SymFP, fp16_var
from symx.npx import patched
from symx.core import reraise_if_harness  # noqa: E402

LEVEL = "other"
FUNCTIONS = ["black_it.utils.base:get_closest", "black_it.utils.base:digitize_data"]
NUMBER_MODEL = "R (exact reals), R~ (reals + uninterpreted rounding of every subtraction with ground monotone/sign/odd axioms) and F16 (bit-precise IEEE half precision: 1-element grids in the quick tier, <= 2 elements in the thorough tier)"
EXPLANATION = (
    "Bounded symbolic execution of the real get_closest/digitize_data: grid elements and values are z3 Reals "
    "(arbitrary strictly increasing grid, value anywhere), every path of numpy's searchsorted + the step-back rule is "
    "explored and on each path z3 decides: result is a grid element, no grid element is strictly closer (exact and as the "
    "code computes the distances under abstract rounding), idempotence, and column-wise/element-wise action."
)
ASSUMPTIONS = [
    "grid strictly increasing (what np.arange with a positive step produces); non-finite values outside the claim",
    "F16 cases are a reduced-width bound (half precision), not a binary64 claim",
    "R~: every floating subtraction is rnd(exact) with rnd monotone, sign-preserving and odd (true of IEEE-754 round-to-nearest without overflow); bit-precise binary64 is out of solver reach",
    "numpy searchsorted/fancy-indexing semantics are those of the installed numpy (it is executed, not modelled)",
]
OUTSIDE = ["grids longer than the stated n", "NaN/Inf inputs", "overflow of the subtraction"]
REQUIRED_LABELS = ["in_grid", "nearest_exact", "nearest_as_computed", "idempotent", "columnwise"]


def bounds(tier):
    return {
        "quick": "grid length n=1..12 (symbolic strictly increasing reals), 1 value; R~ n=1..8; idempotence n<=6; digitize_data shapes (1,1),(2,1),(1,2),(2,2) with per-column grids of 2..3 elements ((2,2): 2 each)",
        "thorough": "n=1..200 (exact: every n up to 40 then 50,64,100,128,200), R~ n=1..24; idempotence n<=12; digitize shapes up to (3,2),(2,3) with grids of 2..4",
    }[tier]


def _grid(ctx, n, stem="g"):
    g = []
    for i in range(n):
        x = ctx.real(f"{stem}{i}")
        if i:
            ctx.assume(g[-1] < x)
        g.append(x)
    return objarr(g)


def _replay_values(cex, n, stem="g"):
    g = np.array([f(cex.values.get(f"{stem}{i}")) for i in range(n)], dtype=float)
    return g


def _judge(grid, v, r):
    """exact-rational judgement on concrete floats."""
    if not any(r == x for x in grid):
        return True, f"result {r!r} is not a grid element"
    dv = abs(Fraction(float(v)) - Fraction(float(r)))
    tol = Fraction(max(abs(float(v)), max(abs(float(x)) for x in grid), 1e-300)) / 2**48
    for x in grid:
        if abs(Fraction(float(v)) - Fraction(float(x))) < dv - tol:
            return True, f"value {v!r}: returned {r!r} but {x!r} is strictly closer"
    return False, "nearest"


def case_single(n, rounded):
    def body(ctx):
        g = _grid(ctx, n)
        v = ctx.real("v")
        with patched(ub):
            if rounded:
                ctx.rnd_pairs = False
                ctx.rnd_mode = True
            out = ub.get_closest(g, objarr([v]))
            ctx.rnd_mode = False
        r = out[0]
        ctx.sample({"n": n, "rounded": rounded, "result_term": str(r)[:120]})
        ctx.prove(z3.Or(*[r.t == x.t for x in g]), "in_grid", f"n={n}")
        if rounded:
            ctx.rnd_chain([v - x for x in g])
            dr = z3.If(UF_RND(v.t - r.t) >= 0, UF_RND(v.t - r.t), -UF_RND(v.t - r.t))
            # instantiate the axioms for the term v-r as well (it is one of the v-g_j on every path)
            for x in g:
                dx = UF_RND(v.t - x.t)
                ctx.solver.add(z3.Implies(v.t - x.t >= 0, dx >= 0), z3.Implies(v.t - x.t <= 0, dx <= 0))
                ctx.solver.add(z3.Implies(r.t == x.t, UF_RND(v.t - r.t) == dx))
            ok = z3.And(*[dr <= z3.If(UF_RND(v.t - x.t) >= 0, UF_RND(v.t - x.t), -UF_RND(v.t - x.t)) for x in g])
            ctx.prove(ok, "nearest_as_computed", f"n={n}")
        else:
            d = abs(v - r)
            ctx.prove(z3.And(*[(d <= abs(v - x)).t for x in g]), "nearest_exact", f"n={n}")

    def replay(cex):
        g = _replay_values(cex, n)
        v = f(cex.values.get("v"))
        if not all(a < b for a, b in zip(g, g[1:])):
            return False, "model grid not strictly increasing after float conversion"
        try:
            out = ub.get_closest(g, np.array([v]))
        except Exception as e:  # noqa: BLE001
            reraise_if_harness(e)
            return True, f"get_closest({g.tolist()}, [{v}]) raised {type(e).__name__}: {e}"
        bad, why = _judge(list(g), v, out[0])
        return bad, f"get_closest({g.tolist()}, [{v}]) -> {out.tolist()}: {why}"

    return Case(f"single-n{n}-{'Rt' if rounded else 'R'}", body, replay, time_budget=900)


def case_f16(n, solver_timeout_ms=120000):
    """Bit-precise IEEE half precision: grid and value are z3 FloatingPoint(5,11) terms, every subtraction/abs/comparison of the
    real get_closest is the IEEE operation. A reduced-WIDTH bound, not a binary64 claim."""

    def body(ctx):
        g = [fp16_var(ctx, f"g{i}") for i in range(n)]
        for a, b in zip(g, g[1:]):
            ctx.solver.add(z3.fpLT(a.t, b.t))
        v = fp16_var(ctx, "v")
        with patched(ub):
            out = ub.get_closest(objarr(g), objarr([v]))
        r = out[0]
        ctx.prove(z3.Or(*[z3.fpEQ(r.t, x.t) for x in g]), "in_grid", f"F16 n={n}")
        dr = z3.fpAbs(z3.fpSub(z3.RNE(), v.t, r.t))
        ctx.prove(z3.And(*[z3.fpLEQ(dr, z3.fpAbs(z3.fpSub(z3.RNE(), v.t, x.t))) for x in g]), "nearest_as_computed", f"F16 n={n}: |v (-) r| <= |v (-) g_j| with IEEE half-precision subtraction")

    def replay(cex):
        g = np.array([np.float16(f(cex.values.get(f"g{i}"))) for i in range(n)], dtype=np.float16)
        v = np.float16(f(cex.values.get("v")))
        try:
            out = ub.get_closest(g, np.array([v], dtype=np.float16))
        except Exception as e:  # noqa: BLE001
            reraise_if_harness(e)
            return True, f"get_closest raised {type(e).__name__}: {e}"
        r = out[0]
        bad = not any(r == x for x in g) or any(abs(np.float16(v - x)) < abs(np.float16(v - r)) for x in g)
        return bool(bad), f"float16: get_closest({g.tolist()}, [{float(v)}]) -> {float(r)}"

    return Case(f"f16-n{n}", body, replay, time_budget=600, solver_timeout_ms=solver_timeout_ms, witness_paths=0, cross_budget=0)


def case_idem(n):
    def body(ctx):
        g = _grid(ctx, n)
        v = ctx.real("v")
        with patched(ub):
            o1 = ub.get_closest(g, objarr([v]))
            o2 = ub.get_closest(g, o1)
        ctx.prove(o1[0].t == o2[0].t, "idempotent", f"n={n}")

    def replay(cex):
        g = _replay_values(cex, n)
        v = f(cex.values.get("v"))
        o1 = ub.get_closest(g, np.array([v]))
        o2 = ub.get_closest(g, o1)
        return bool(o1[0] != o2[0]), f"snap({v})={o1[0]!r}, snap(snap)={o2[0]!r} grid={g.tolist()}"

    return Case(f"idem-n{n}", body, replay)


def case_digitize(shape, ns):
    R, C = shape

    def body(ctx):
        grids = [_grid(ctx, ns[c], stem=f"g{c}_") for c in range(C)]
        data = ctx.reals("x", (R, C))
        with patched(ub):
            out = ub.digitize_data(data, grids)
            ctx.prove(z3.BoolVal(out.shape == (R, C)), "columnwise", "shape")
            for r_ in range(R):
                for c in range(C):
                    single = ub.get_closest(grids[c], objarr([data[r_, c]]))[0]
                    ctx.prove(out[r_, c].t == single.t, "columnwise", f"shape={shape} cell=({r_},{c})")
                    ctx.prove(z3.Or(*[out[r_, c].t == x.t for x in grids[c]]), "in_grid", "digitize")

    def replay(cex):
        grids = [_replay_values(cex, ns[c], stem=f"g{c}_") for c in range(C)]
        data = np.array([[f(cex.values.get(f"x_{r_}_{c}")) for c in range(C)] for r_ in range(R)], dtype=float)
        try:
            out = ub.digitize_data(data, grids)
        except Exception as e:  # noqa: BLE001
            reraise_if_harness(e)
            return True, f"digitize_data raised {type(e).__name__}: {e}"
        if out.shape != (R, C):
            return True, f"shape {out.shape}"
        for r_ in range(R):
            for c in range(C):
                bad, why = _judge(list(grids[c]), data[r_, c], out[r_, c])
                if bad:
                    return True, f"digitize_data cell ({r_},{c}) with column grid {grids[c].tolist()}: {why}"
        return False, "ok"

    return Case(f"digitize-{R}x{C}-{'_'.join(map(str, ns))}", body, replay, split=4 if R * C >= 4 else 0)


def case_dtypes():
    """The element type of the value array is a finite dimension of 'all array shapes': enumerated concretely (the grid values
    are not representable in the narrower types, so a result stored in the input's type cannot be a grid element)."""
    grids = [np.array([0.5, 1.5, 2.5, 3.5]), np.array([0.1, 0.2, 0.7, 1.9])]
    arrays = {"int64": np.array([[1, 0], [3, 2], [-4, 5]], dtype=np.int64), "int32": np.array([[2, 1]], dtype=np.int32),
              "float32": np.array([[0.3, 0.15], [2.9, 1.2]], dtype=np.float32), "float16": np.array([[1.0, 0.5]], dtype=np.float16),
              "bool": np.array([[True, False]]), "float64": np.array([[1.0, 0.16], [9.0, -3.0]])}

    def check():
        msgs = []
        for nm, data in arrays.items():
            try:
                out = ub.digitize_data(data, grids)
            except Exception as e:  # noqa: BLE001
                reraise_if_harness(e)
                msgs.append(f"{nm}: raised {type(e).__name__}: {e}")
                continue
            if out.shape != data.shape:
                msgs.append(f"{nm}: shape {out.shape}")
                continue
            for r_ in range(data.shape[0]):
                for c_ in range(data.shape[1]):
                    bad, why = _judge(list(grids[c_]), float(data[r_, c_]), float(out[r_, c_]))
                    if bad:
                        msgs.append(f"{nm} batch, column {c_}: {why}")
        return msgs

    def body(ctx):
        msgs = check()
        ctx.prove(z3.BoolVal(not msgs), "columnwise", "; ".join(msgs[:3]) or "value arrays of int64/int32/float32/float16/bool/float64 element type (concrete, auxiliary)")

    def replay(cex):
        msgs = check()
        return bool(msgs), "; ".join(msgs[:3]) or "ok"

    return Case("dtypes-aux", body, replay)


def cases(tier, seed):
    cs = [case_dtypes()]
    if tier == "quick":
        exact_ns = range(1, 13)
        rt_ns = range(1, 9)
        idem = range(1, 7)
        dig = [((1, 1), (3,)), ((2, 1), (3,)), ((1, 2), (2, 3)), ((2, 2), (2, 2))]
    else:
        exact_ns = list(range(1, 41)) + [50, 64, 100, 128, 200]
        rt_ns = range(1, 25)
        idem = range(1, 13)
        dig = [((1, 1), (4,)), ((2, 1), (4,)), ((1, 2), (2, 3)), ((2, 2), (3, 2)), ((3, 2), (2, 2)), ((2, 3), (2, 2, 2)), ((2, 2), (3, 3))]
    for n in exact_ns:
        cs.append(case_single(n, False))
    for n in rt_ns:
        cs.append(case_single(n, True))
    for n in idem:
        cs.append(case_idem(n))
    # three-element grids in half precision left the solver without an answer within 2 minutes per query: the bit-precise claim is
    # for grids of <= 2 elements in both tiers (the thorough tier gives the query more time)
    # The 2-element case took between 3 and more than 15 minutes from one run to the next on the same code (the floating-point
    # queries are at the edge of what z3 decides): too unstable for a check that runs on every change, so the quick tier keeps
    # the 1-element grid and the 2-element grid is decided in the thorough tier with a generous per-query limit.
    for n in ((1,) if tier == "quick" else (1, 2)):
        cs.append(case_f16(n, solver_timeout_ms=120000 if tier == "quick" else 900000))
    for shape, ns in dig:
        cs.append(case_digitize(shape, ns))
    return cs


def precheck(tier, seed):
    from symx.npx import selftest

    return {"proxy_validations": selftest(100, seed), "validated": 0}

MANIFEST = {
    "category": "other",
    "text": "Bounded symbolic verification: the real get_closest/digitize_data are executed on symbolic grids (any strictly increasing reals, length up to the stated n) and a symbolic value; on every path z3 proves membership, nearest-ness (exact and under abstract rounding), idempotence and column-wise action. Covers every placement of the value relative to the grid (inside, outside, mid-points, grid points) which no sampled test can.",
    "note": "Floats are modelled as exact reals and as reals with an uninterpreted monotone rounding function (not bit-precise binary64); a bit-precise IEEE half-precision model covers 1-element grids in the quick tier and 2-element grids in the thorough tier; numpy's searchsorted/indexing is executed, not modelled; bounds on n in the evidence; z3 is trusted.",
}
