"""Shared lifting pieces for the loss-function harnesses (C07, C08)."""
from __future__ import annotations

import contextlib

import numpy as np
import z3

import black_it.loss_functions.base as lbase
import black_it.loss_functions.fourier as lfourier
import black_it.loss_functions.gsl_div as lgsl
import black_it.loss_functions.likelihood as llik
import black_it.loss_functions.minkowski as lmink
import black_it.loss_functions.msm as lmsm
import black_it.utils.base as ubase
from symx.core import Sym, SymBool, cur, is_sym, lift
from symx.npx import NPX, NpProxy, np_with, patched, sym_int


class AckFun:
    """Variable-arity uninterpreted function by Ackermann constraints (equal arguments => equal result)."""

    def __init__(self, name, nout=1):
        # result variables are named after the function: two AckFun objects alive on the same path must not share a name
        c = cur()
        if c is not None:
            used = c.scratch.setdefault("ackfun_names", {})
            k = used.get(name, 0)
            used[name] = k + 1
            if k:
                name = f"{name}~{k}"
        self.name = name
        self.nout = nout
        self.apps = []  # (args_terms, [result Syms])

    @staticmethod
    def shared(name, nout=1):
        """The path-global instance of a function (same function for every caller on this path)."""
        c = cur()
        reg = c.scratch.setdefault("ackfun_shared", {})
        if (name, nout) not in reg:
            reg[(name, nout)] = AckFun(name, nout)
        return reg[(name, nout)]

    def __deepcopy__(self, memo):
        return self  # a function, not state

    def __call__(self, args):
        ctx = cur()
        terms = [lift(a) for a in args]
        terms = [z3.ToReal(t) if t.sort().kind() == z3.Z3_INT_SORT else t for t in terms]
        for (pa, pr) in self.apps:
            if len(pa) == len(terms) and all(a.eq(b) for a, b in zip(pa, terms)):
                return pr
        idx = len(self.apps)
        res = [Sym(z3.Real(f"{self.name}!{idx}!{j}")) for j in range(self.nout)]
        for j, r_ in enumerate(res):
            ctx.inputs[f"{self.name}!{idx}!{j}"] = r_.t  # visible in counterexamples: replays can script the function
        for (pa, pr) in self.apps:
            if len(pa) == len(terms):
                same = z3.And(*[a == b for a, b in zip(pa, terms)]) if terms else z3.BoolVal(True)
                ctx.solver.add(z3.Implies(same, z3.And(*[x.t == y.t for x, y in zip(pr, res)])))
        self.apps.append((terms, res))
        return res


class SymC:
    """Minimal symbolic complex number (only what FourierLoss needs)."""

    __slots__ = ("re", "im")

    def __init__(self, re, im):
        self.re, self.im = re, im

    def _c(self, o):
        if isinstance(o, SymC):
            return o
        if isinstance(o, complex):
            return SymC(o.real, o.imag)
        return SymC(o, 0)

    def __add__(self, o):
        o = self._c(o)
        return SymC(self.re + o.re, self.im + o.im)

    __radd__ = __add__

    def __sub__(self, o):
        o = self._c(o)
        return SymC(self.re - o.re, self.im - o.im)

    def __rsub__(self, o):
        o = self._c(o)
        return SymC(o.re - self.re, o.im - self.im)

    def __mul__(self, o):
        if isinstance(o, SymC):
            return SymC(self.re * o.re - self.im * o.im, self.re * o.im + self.im * o.re)
        return SymC(self.re * o, self.im * o)

    __rmul__ = __mul__

    def __truediv__(self, o):
        return SymC(self.re / o, self.im / o)

    def __neg__(self):
        return SymC(-self.re, -self.im)

    def __abs__(self):
        s = self.re * self.re + self.im * self.im
        if is_sym(s):
            return _Modulus(s)
        return abs(complex(self.re, self.im))

    def __repr__(self):
        return f"SymC({self.re},{self.im})"


class _Modulus(Sym):
    """|z| = sqrt(re^2+im^2) that remembers its square: |z|**2 is re^2+im^2 itself (valid: the radicand is a sum of squares)."""

    __slots__ = ("sq",)

    def __init__(self, s):
        r = s.sqrt()
        Sym.__init__(self, r.t)
        self.sq = s

    def __pow__(self, e):
        if e == 2:
            return self.sq
        return Sym.__pow__(self, e)


class FFTStub:
    """np.fft.rfft as an uninterpreted map: output k = (RE_k(x), IM_k(x)) — deterministic function of the input series."""

    def __init__(self):
        self.fn = {}

    def rfft(self, x, n=None, axis=-1, norm=None):
        xa = np.asarray(x, dtype=object)
        if xa.ndim > 1:
            # batched transform along `axis` (numpy semantics): one independent 1-d transform per series
            moved = np.moveaxis(xa, axis, -1)
            rows = [self.rfft(r) for r in moved.reshape(-1, moved.shape[-1])]
            out = np.empty((len(rows), len(rows[0])), dtype=object)
            for i, r in enumerate(rows):
                out[i, :] = r
            return np.moveaxis(out.reshape(moved.shape[:-1] + (len(rows[0]),)), -1, axis)
        x = list(xa.ravel())
        n = len(x)
        nf = n // 2 + 1
        f = self.fn.setdefault(n, AckFun(f"rfft{n}", nout=2 * nf))
        res = f(x)
        out = np.empty(nf, dtype=object)
        for k in range(nf):
            out[k] = SymC(res[2 * k], res[2 * k + 1])
        return out


def minkowski_model(u, v, p=2):
    """scipy.spatial.distance.minkowski on symbolic vectors: (sum |u_i - v_i|^p)^(1/p)."""
    u = np.asarray(u, dtype=object).ravel()
    v = np.asarray(v, dtype=object).ravel()
    s = 0
    for a, b in zip(u, v):
        d = abs(a - b)
        s = s + (d if p == 1 else d**p)
    if p == 1:
        return s
    if p == 2:
        return s.sqrt() if is_sym(s) else float(s) ** 0.5
    return s ** (1.0 / p)


@contextlib.contextmanager
def loss_world(fft=None, extra=None):
    fftstub = fft or FFTStub()

    class _NP(NpProxy):
        fft = fftstub

    npx = _NP()
    with patched(lbase, np=NPX), patched(lmink, minkowski=minkowski_model), patched(lmsm, np=NPX), patched(lfourier, np=npx), \
            patched(lgsl, np=NPX, int=sym_int), patched(llik, np=NPX), patched(ubase, np=NPX):
        yield fftstub


def ident_cells(a):
    """identity snapshot of an object array's cells."""
    return [id(x) for x in np.asarray(a, dtype=object).ravel()], np.asarray(a, dtype=object).copy()


def cells_unchanged(a, snap):
    ids, cp = snap
    flat = np.asarray(a, dtype=object).ravel()
    return len(flat) == len(ids) and all(x is y for x, y in zip(flat, cp.ravel()))


def per_series_filter(G, N, name="filter"):
    """Uninterpreted coordinate filter. The documented calling contract is one simulated SERIES (1-d, length N) per call
    ('filters/transformations to be applied to each simulated series'): a call with anything else is recorded as a failed
    obligation of the calling code (and answered row by row so that the path can go on)."""
    import numpy as _np

    from symx.core import cur as _cur

    def one(series):
        out = G(list(series))
        a = _np.empty(N, dtype=object)
        for i in range(N):
            a[i] = out[i]
        return a

    def flt(series):
        s = _np.asarray(series, dtype=object)
        if s.ndim != 1:
            import z3 as _z3

            _cur().prove(_z3.BoolVal(False), "filter_called_per_series", f"{name} was called with an array of shape {s.shape} instead of one series of length {N}")
            return _np.array([one(r) for r in s.reshape(-1, s.shape[-1])], dtype=object).reshape(s.shape)
        return one(s)

    return flt


def reducing_filter(k):
    """Concrete filter for replays that is NOT element-wise (de-means and rescales the series it is given), so that filtering
    pooled members differs from filtering each series; insists on the documented 1-d argument."""
    import numpy as _np

    def flt(s):
        s = _np.asarray(s, dtype=float)
        return (s - s.mean()) * (k + 2.0) + (k + 1.0) + 0.25 * s

    return flt
