"""C02 — the recorded history is aligned, truthful and append-only."""
from __future__ import annotations

import warnings
from fractions import Fraction

import numpy as np
import z3

import black_it.calibrator as cal
import black_it.samplers.surrogate as sur
import black_it.samplers.xgboost as xgbmod
from black_it.loss_functions.base import BaseLoss
from black_it.samplers.base import BaseSampler
from harness.calib import FreeLoss, ScriptedSampler, make_sampler_class, model_uf, world
from harness.common import Case, all_eq, f
from symx.core import Sym, lift
from symx.npx import NPX, patched

LEVEL = "model_checking"
FUNCTIONS = [
    "black_it.calibrator:Calibrator.calibrate",
    "black_it.calibrator:Calibrator.simulate_model",
    "black_it.samplers.base:BaseSampler.sample",
    "black_it.samplers.xgboost:XGBoostSampler._clip_losses",
    "black_it.samplers.xgboost:XGBoostSampler.fit",
    "black_it.samplers.surrogate:MLSurrogateSampler.sample_batch",
]
NUMBER_MODEL = "R exact; model and loss are uninterpreted (the loss by Ackermann constraints), seeds are uninterpreted draws"
EXPLANATION = (
    "The real calibrate()/simulate_model() run with scripted samplers proposing free reals, an uninterpreted model whose output "
    "term carries the parameter vector and the seed, and an uninterpreted loss. After every batch z3 proves: equal lengths = counter; "
    "each stored series cell is the output of a distinct model run on exactly that row's parameters with the configured length; each "
    "stored loss is the loss of exactly that row's series; batch labels consecutive; sampler label = id of the designated sampler; rows "
    "recorded earlier are unchanged (also with the real XGBoost sampler prologue lent the live loss array, for losses in the float32 "
    "overflow regions); the return value is the history permuted into non-decreasing loss order (all argsort orderings explored)."
)
ASSUMPTIONS = [
    "model/loss are pure functions (uninterpreted); joblib contract stub (in-order results, arguments deep-copied for n_jobs != 1)",
    "xgboost regressor replaced by an uninterpreted fit/predict stub; candidate pool scripted",
    "deduplication budget 0 for scripted samplers (dedup is C12's subject)",
]
OUTSIDE = ["models returning arrays of the wrong shape", "more than 3 batches x 3 rows", "float rounding of the loss"]
REQUIRED_LABELS = ["aligned", "series_truthful", "loss_truthful", "labels", "append_only", "return_sorted_permutation", "params_are_proposals"]

MAXF = float(np.finfo(np.float32).max)


def bounds(tier):
    return {"quick": "line-ups of 1..2 scripted samplers (batch sizes 1..3), ensemble 1..3, N 1..2, D 1..2, 1..3 batches, 1..2 calibrate calls, n_jobs in {1,2}; argsort explored for <= 4 rows; one line-up with the real XGBoost sampler prologue",
            "thorough": "adds 3 samplers, up to 4 batches, argsort for <= 5 rows, ensemble 3 with batch 3"}[tier]


class _StubReg:
    n = 0

    def __init__(self, **kw):
        self.kw = kw

    def fit(self, X, y):
        self.X, self.y = X, y

    def predict(self, X):
        from symx.core import cur

        return np.array([cur().fresh_real("pred") for _ in range(len(X))], dtype=object)


class _XgbStub:
    XGBRegressor = _StubReg

    @staticmethod
    def DMatrix(data=None, label=None):
        return None


def _check_history(ctx, c, model, loss, lineup, proposals, snapshots, E, N, D, real):
    rows = len(c.params_samp)
    ctx.prove(z3.BoolVal(rows == c.n_sampled_params and len(c.losses_samp) == rows and len(c.series_samp) == rows and len(c.batch_num_samp) == rows
                         and len(c.method_samp) == rows and c.series_samp.shape == (rows, E, N, D)), "aligned",
              f"counter={c.n_sampled_params} lengths={[len(c.params_samp), len(c.losses_samp), len(c.series_samp), len(c.batch_num_samp), len(c.method_samp)]} series shape={c.series_samp.shape}")
    if c.series_samp.shape != (rows, E, N, D) or len(c.losses_samp) != rows:
        return
    # proposals: row i is what the designated sampler returned
    flatp = [r for (_, out) in proposals for r in out]
    ctx.prove(z3.BoolVal(len(flatp) == rows) if len(flatp) != rows else z3.And(*[all_eq(c.params_samp[i], flatp[i]) for i in range(rows)]) if rows else z3.BoolVal(True),
              "params_are_proposals", "stored parameters are the sampler's proposals, in order")
    # series truthful
    used = set()
    conds = []
    ok_struct = True
    for i in range(rows):
        for e in range(E):
            cell = c.series_samp[i, e]
            match = [k for k, (th, n_, sd, out) in enumerate(model.calls) if k not in used and out.shape == cell.shape
                     and all(lift(a).eq(lift(b)) for a, b in zip(out.ravel(), cell.ravel()))]
            if not match:
                ok_struct = False
                continue
            k = match[0]
            used.add(k)
            th, n_, sd, out = model.calls[k]
            conds.append(all_eq(th, c.params_samp[i]))
            conds.append(z3.BoolVal(n_ == N))
    ctx.prove(z3.BoolVal(ok_struct and len(model.calls) == rows * E), "series_truthful", f"every stored series is the output of a distinct model run ({len(model.calls)} runs for {rows}x{E})")
    ctx.prove(z3.And(*conds) if conds else z3.BoolVal(True), "series_truthful", "each run used exactly the row's parameter vector and the configured length")
    # loss truthful
    lconds = []
    lok = True
    for i in range(rows):
        li = lift(c.losses_samp[i])
        m = [j for j, (flat, rd, L) in enumerate(loss.calls) if L.t.eq(li)]
        if not m:
            lok = False
            continue
        flat, rd, L = loss.calls[m[0]]
        want = [lift(x) for x in c.series_samp[i].ravel()]
        lconds.append(z3.And(*[a == b for a, b in zip(flat, want)]) if len(flat) == len(want) else z3.BoolVal(False))
        lconds.append(z3.BoolVal(rd is real))
    ctx.prove(z3.BoolVal(lok and len(loss.calls) == rows), "loss_truthful", "every stored loss is the value of one loss evaluation")
    ctx.prove(z3.And(*lconds) if lconds else z3.BoolVal(True), "loss_truthful", "the loss was evaluated on exactly the stored series of that row against the real data")
    # labels
    exp_b, exp_m = [], []
    for b, (si, out) in enumerate(proposals):
        exp_b += [b] * len(out)
        exp_m += [c.samplers_id_table[type(lineup[si]).__name__]] * len(out)
    ctx.prove(z3.BoolVal(len(exp_b) == rows) if len(exp_b) != rows else z3.And(*[lift(x) == y for x, y in zip(c.batch_num_samp, exp_b)], *[lift(x) == y for x, y in zip(c.method_samp, exp_m)]) if rows else z3.BoolVal(True),
              "labels", "batch index consecutive from 0 and sampler id of the designated sampler")
    # append-only
    for (r0, P0, L0, S0, B0, M0) in snapshots:
        ctx.prove(z3.And(all_eq(c.params_samp[:r0], P0), all_eq(c.losses_samp[:r0], L0), all_eq(c.series_samp[:r0], S0),
                         all_eq(c.batch_num_samp[:r0], B0), all_eq(c.method_samp[:r0], M0)), "append_only", f"first {r0} rows unchanged")
    snapshots.append((rows, c.params_samp.copy(), c.losses_samp.copy(), c.series_samp.copy(), c.batch_num_samp.copy(), c.method_samp.copy()))


def case(name, sizes, E, N, D, calls, n_jobs, sort, xgb=False, conv=None, mutating_model=False):
    P = 1

    def body(ctx):
        mods = (xgbmod, sur) if xgb else ()
        with world(argsort_identity=not sort, extra_modules=mods), patched(xgbmod, xgb=_XgbStub) if xgb else patched():
            model = model_uf(P, N, D)
            inner = model

            def rec_model(theta, n_, seed):
                out = inner(theta, n_, seed)
                rec_model.calls.append((np.array(theta, dtype=object), n_, seed, out))
                if mutating_model:
                    # a model that rescales its parameter argument in place (legal Python; must not reach the recorded history)
                    for j in range(len(theta)):
                        theta[j] = theta[j] / 12
                return out

            rec_model.__name__ = "model"
            rec_model.calls = []
            loss = FreeLoss(ctx, consistent=True)
            classes = [make_sampler_class(f"Samp{i}") for i in range(len(sizes))]
            lineup = [cls(sizes[i], ctx, tag=f"S{i}") for i, cls in enumerate(classes)]
            proposals = []
            for si, s in enumerate(lineup):
                def wrap(s=s, si=si):
                    orig = s.sample

                    def sample(space, pts, ls):
                        out = orig(space, pts, ls)
                        proposals.append((si, [np.array(r, dtype=object) for r in out]))
                        return out

                    s.sample = sample
                wrap()
            if xgb:
                class XS(xgbmod.XGBoostSampler):
                    def sample_candidates(self, pool, space, pts, ls):
                        return np.array([[0.25 * (k % 5)] for k in range(pool)])

                xs = XS(batch_size=1, candidate_pool_size=2, max_deduplication_passes=0)
                orig = xs.sample

                def xsample(space, pts, ls):
                    with warnings.catch_warnings():
                        warnings.simplefilter("ignore")
                        out = orig(space, pts, ls)
                    proposals.append((len(lineup) - 1, [np.array(r, dtype=object) for r in out]))
                    return out

                xs.sample = xsample
                lineup.append(xs)
            real = np.zeros((N, D))
            c = cal.Calibrator(loss_function=loss, real_data=real, model=rec_model, parameters_bounds=[[0.0] * P, [1.0] * P],
                               parameters_precision=[0.25] * P, ensemble_size=E, samplers=lineup, convergence_precision=conv, verbose=False, random_state=ctx.int("seed", 0), n_jobs=n_jobs)
            snapshots = []
            for nb in calls:
                for _ in range(nb) if not (sort or conv is not None) else [0]:
                    # with a convergence precision the call may stop early (forks on the symbolic losses)
                    ret = c.calibrate(1 if not (sort or conv is not None) else nb)
                    _check_history(ctx, c, rec_model, loss, lineup, proposals, snapshots, E, N, D, real)
                rp, rl = ret
                rows = len(c.losses_samp)
                if sort:
                    # the real argsort forked over the orderings; on this path the permutation is concrete
                    conds = [z3.BoolVal(len(rl) == rows and len(rp) == rows)]
                    conds += [lift(rl[j]) <= lift(rl[j + 1]) for j in range(len(rl) - 1)]
                    ctx.prove(z3.And(*conds), "return_sorted_permutation", "returned losses non-decreasing")
                    # permutation of the recorded pairs
                    usedr = set()
                    okp = True
                    for j in range(len(rl)):
                        m = [i for i in range(rows) if i not in usedr and lift(rl[j]).eq(lift(c.losses_samp[i])) and all(lift(a).eq(lift(b)) for a, b in zip(rp[j], c.params_samp[i]))]
                        if not m:
                            okp = False
                            break
                        usedr.add(m[0])
                    ctx.prove(z3.BoolVal(okp and len(usedr) == rows), "return_sorted_permutation", "returned pairs are exactly the recorded (parameter, loss) pairs")
                else:
                    ctx.prove(z3.And(all_eq(rl, c.losses_samp), all_eq(rp, c.params_samp)), "return_sorted_permutation", "identity-permutation stub: returns the recorded pairs")
            ctx.sample({"case": name, "rows": len(c.losses_samp), "model_runs": len(rec_model.calls)})

    def replay(cex):
        return replay_concrete(sizes, E, N, D, calls, n_jobs, xgb, cex.values, conv, mutating_model)

    return Case(name, body, replay, time_budget=240)


class _SumLoss(BaseLoss):
    log = None

    def compute_loss_1d(self, sim, real):
        return 0.0

    def compute_loss(self, sim, real):
        v = float(np.sum(sim) + 0.0)
        _SumLoss.log.append((sim.copy(), v))
        return _SumLoss.scripted.pop(0) if _SumLoss.scripted else v


class _PS(BaseSampler):
    all_outs = []

    def sample_batch(self, batch_size, search_space, existing_points, existing_losses):
        out = np.array([[self.vals.pop(0) if self.vals else 0.5] for _ in range(batch_size)])
        self.outs.append(out.copy())
        _PS.all_outs.append(out.copy())
        return out


def replay_concrete(sizes, E, N, D, calls, n_jobs, xgb, values, conv=None, mutating_model=False):
    """Real calibrator with a deterministic recording model; losses scripted from the model when available."""
    runs = []

    def model(theta, n_, seed):
        out = np.full((n_, D), float(theta[0])) + (seed % 997) * 1e-6 + np.arange(n_ * D).reshape(n_, D) * 1e-9
        runs.append((np.array(theta, dtype=float), n_, seed, out.copy()))
        if mutating_model:
            theta /= 12.0
        return out

    model.__name__ = "model"
    _SumLoss.log = []
    _PS.all_outs = []
    Ls = sorted((int(k[1:]), v) for k, v in values.items() if k.startswith("L") and k[1:].isdigit())
    _SumLoss.scripted = [float(f(v)) for _, v in Ls]
    lineup = []
    for i, b in enumerate(sizes):
        cls = type(f"Samp{i}", (_PS,), {})
        s = cls(b, max_deduplication_passes=0)
        s.vals = [float(f(v)) for k, v in sorted(values.items()) if k.startswith(f"S{i}_c")]
        s.outs = []
        lineup.append(s)
    if xgb:
        from black_it.samplers.xgboost import XGBoostSampler

        lineup.append(XGBoostSampler(batch_size=1, candidate_pool_size=4, max_deduplication_passes=0, random_state=0))
    c = cal.Calibrator(loss_function=_SumLoss(), real_data=np.zeros((N, D)), model=model, parameters_bounds=[[0.0], [1.0]], parameters_precision=[0.25],
                       ensemble_size=E, samplers=lineup, convergence_precision=conv, verbose=False, random_state=int(values.get("seed") or 0) % 2**32, n_jobs=1)
    msgs = []
    snaps = []
    with warnings.catch_warnings():
        warnings.simplefilter("ignore")
        for nb in calls:
            for _ in (range(nb) if conv is None else [0]):
                rp, rl = c.calibrate(1 if conv is None else nb)
                rows = c.n_sampled_params
                # batch labels: consecutive from 0, constant within a batch (a batch = one sampler call)
                starts = np.cumsum([0] + [len(o) for s_ in lineup if hasattr(s_, "outs") for o in []])
                labs = list(c.batch_num_samp)
                if labs and (labs[0] != 0 or any(b - a not in (0, 1) for a, b in zip(labs, labs[1:])) or len(set(labs)) != c.current_batch_index):
                    msgs.append(f"batch labels {labs} are not the consecutive indices of the {c.current_batch_index} batches run")
                lens = [len(c.params_samp), len(c.losses_samp), len(c.series_samp), len(c.batch_num_samp), len(c.method_samp)]
                if any(x != rows for x in lens) or c.series_samp.shape != (rows, E, N, D):
                    msgs.append(f"lengths {lens} vs counter {rows}, series shape {c.series_samp.shape}")
                    break
                for (r0, P0, L0, S0) in snaps:
                    if not (np.array_equal(c.params_samp[:r0], P0) and np.array_equal(c.losses_samp[:r0], L0, equal_nan=True) and np.array_equal(c.series_samp[:r0], S0)):
                        bad_rows = [i for i in range(r0) if c.losses_samp[i] != L0[i]]
                        msgs.append(f"rows recorded earlier changed (loss rows {bad_rows}: {L0[bad_rows].tolist()} -> {c.losses_samp[bad_rows].tolist()})")
                snaps.append((rows, c.params_samp.copy(), c.losses_samp.copy(), c.series_samp.copy()))
                if not xgb and _PS.all_outs:
                    prop = np.vstack(_PS.all_outs)
                    if prop.shape != c.params_samp.shape or not np.array_equal(prop, c.params_samp):
                        msgs.append(f"recorded parameters {c.params_samp.ravel().tolist()} are not the samplers' proposals {prop.ravel().tolist()}")
                if len(runs) != rows * E:
                    msgs.append(f"{len(runs)} model runs for {rows} rows x {E}")
                else:
                    for i in range(rows):
                        for e in range(E):
                            th, n_, sd, out = runs[i * E + e]
                            if not (np.array_equal(out, c.series_samp[i, e]) and np.array_equal(th, c.params_samp[i]) and n_ == N):
                                msgs.append(f"row {i} member {e}: stored series is not the run of the model on params {c.params_samp[i].tolist()} (run had {th.tolist()})")
                for i in range(rows):
                    if i < len(_SumLoss.log) and not np.array_equal(_SumLoss.log[i][0], c.series_samp[i]):
                        msgs.append(f"loss of row {i} was evaluated on other series")
                if list(rl) != sorted(rl) or sorted(map(float, rl)) != sorted(map(float, c.losses_samp)):
                    msgs.append("returned losses not the sorted history")
                if msgs:
                    break
    return bool(msgs), f"sizes={sizes} E={E} N={N} D={D} calls={calls} xgb={xgb}: " + ("; ".join(msgs[:3]) or "history consistent")


def cases(tier, seed):
    cs = []
    cs.append(case("one-B2-E2", [2], 2, 2, 1, [2], 1, False))
    cs.append(case("two-B2B1-E2-jobs2", [2, 1], 2, 1, 2, [2, 1], 2, False))
    cs.append(case("one-B3-E3", [3], 3, 1, 1, [1, 1], 1, False))
    cs.append(case("two-B1B3-E1", [1, 3], 1, 2, 2, [3], 4, False))
    cs.append(case("sort-B2-E1-2batches", [2], 1, 1, 1, [2], 1, True))
    cs.append(case("sort-B1B2-E2-3rows", [1, 2], 2, 1, 1, [2], 2, True))
    cs.append(case("xgb-lent-history", [2], 1, 1, 1, [2, 1], 1, False, xgb=True))
    cs.append(case("converge-then-continue", [1, 2], 1, 1, 1, [2, 1, 1], 1, False, conv=0))
    cs.append(case("model-mutates-its-argument", [2], 2, 1, 1, [2], 1, False, mutating_model=True))
    if tier == "thorough":
        cs.append(case("three-B1B2B3-E2", [1, 2, 3], 2, 2, 1, [3, 1], 2, False))
        cs.append(case("sort-B2B1-E1-5rows", [2, 1], 1, 1, 1, [3], 1, True))
        cs.append(case("xgb-lent-history-E2", [1], 2, 1, 1, [2, 2], 1, False, xgb=True))
        cs.append(case("one-B3-E3-4batches", [3], 3, 2, 2, [4], 1, False))
    return cs


MANIFEST = {
    "category": "model_checking",
    "text": "Symbolic execution of the real calibrate()/simulate_model() with free proposals, an uninterpreted model (output term carries parameter vector and seed) and an uninterpreted loss: after every batch z3 proves alignment, that each stored series/loss was computed from exactly that row's parameters/series, label correctness, immutability of earlier rows (including when the real XGBoost prologue is lent the live loss array with losses in the float32-overflow regions) and that the return value is the sorted permutation (all argsort orderings explored as paths).",
    "note": "Model and loss assumed pure; joblib replaced by its contract; xgboost regressor stubbed; <= 3 batches x 3 rows (quick); argsort explored for <= 4 rows.",
}
