"""Finding the RL scheduler's exchange objects by ROLE instead of by private attribute name.

The harnesses of C09/C10/C11 have to look at the two queues between the calibration thread and the agent thread, at the agent
thread and at the scalar bookkeeping of scheduler and environment. The pinned code calls them `_in_queue`, `_out_queue`,
`_agent_thread`, `_stopped`, `_best_loss`, `_curr_best_loss`; a behaviour-preserving refactoring is free to rename all of them.
Everything here works on whatever names the objects have; when the roles cannot be told apart the answer is HarnessLimit
(reported as inconclusive), never a guess.
"""
from __future__ import annotations

import queue as _queue
import re
import threading as _threading

from symx.core import HarnessLimit

_ACTION = re.compile(r"(^|_)(in|action|actions|proposal|proposals|choice|choices)(_|$)")
_OUTCOME = re.compile(r"(^|_)(out|feedback|outcome|outcomes|result|results|reward|rewards)(_|$)")


def _is_queue(o):
    return isinstance(o, _queue.Queue) or (hasattr(o, "put") and hasattr(o, "get") and hasattr(o, "empty") and hasattr(o, "items"))


def rl_queues(sched):
    """(action queue: agent -> calibration thread, outcome queue: calibration thread -> agent)."""
    found = {}
    for owner in (sched, *[v for v in vars(sched).values() if hasattr(v, "__dict__") and not _is_queue(v)]):
        for k, v in vars(owner).items():
            if _is_queue(v):
                found.setdefault(id(v), (k, v))
    if len(found) != 2:
        raise HarnessLimit(f"expected two exchange queues on the RL scheduler / its environment, found attributes {[k for k, _ in found.values()]}")
    (ka, qa), (kb, qb) = found.values()

    def role(name):
        n = name.strip("_").lower()
        a, o = bool(_ACTION.search(n)), bool(_OUTCOME.search(n))
        return "action" if a and not o else "outcome" if o and not a else None

    ra, rb = role(ka), role(kb)
    if ra == "action" and rb != "action":
        return qa, qb
    if rb == "action" and ra != "action":
        return qb, qa
    if ra == "outcome" and rb is None:
        return qb, qa
    if rb == "outcome" and ra is None:
        return qa, qb
    raise HarnessLimit(f"cannot tell the action queue from the outcome queue by their names {ka!r}, {kb!r}")


def qlen(q):
    return len(q.items) if hasattr(q, "items") else q.qsize()


def agent_threads(before=()):
    """Threads alive now that were not alive at `before` (a snapshot of threading.enumerate())."""
    known = {id(t) for t in before}
    me = _threading.current_thread()
    return [t for t in _threading.enumerate() if id(t) not in known and t is not me and t.is_alive()]


def session_open(sched):
    """Whether the scheduler considers a session open - without starting one: the pinned code keeps a `_stopped` flag, a
    refactoring may keep a thread handle instead. None when it cannot be told."""
    d = vars(sched)
    if "_stopped" in d or "_stopped_value" in d:
        return not bool(d.get("_stopped_value", d.get("_stopped", True)))
    handles = [v for v in d.values() if isinstance(v, _threading.Thread) or type(v).__name__ == "BThread"]
    if handles:
        return True
    return None


def scalar_state(*objs):
    """A hashable snapshot of the plain scalar bookkeeping (numbers, None, bools, tuples of those) of the given objects, by
    whatever attribute names they use - for visited-state pruning."""
    from symx.baton import _key

    def simple(v):
        return v is None or isinstance(v, (bool, int, float, str)) or hasattr(v, "t") or (isinstance(v, tuple) and all(simple(x) for x in v))

    out = []
    for o in objs:
        out.append(tuple(sorted((k, _key(v) if not isinstance(v, tuple) else tuple(_key(x) for x in v)) for k, v in vars(o).items() if simple(v) and k not in ("n_policy",))))
    return tuple(out)
