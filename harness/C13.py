"""C13 — quasi-random samplers emit the true Halton and R sequences, without gaps."""
from __future__ import annotations

import math
from fractions import Fraction

import numpy as np
import z3

import black_it.samplers.halton as hm
import black_it.samplers.r_sequence as rm
import black_it.utils.seedable as seedable
from black_it.search_space import SearchSpace
from harness.common import Case, f
from symx.core import Sym, lift
from symx.npx import NPX, np_with, patched, sym_range
from symx.stubs import DRAW_I, DRAW_R, ScriptedGenerator, script_from, scripted_rng, sym_default_rng

LEVEL = "other"
FUNCTIONS = [
    "black_it.samplers.halton:halton",
    "black_it.samplers.halton:HaltonSampler._halton",
    "black_it.samplers.halton:HaltonSampler._reset_sequence_index",
    "black_it.samplers.halton:HaltonSampler._set_random_state",
    "black_it.samplers.halton:HaltonSampler.sample_batch",
    "black_it.samplers.r_sequence:RSequenceSampler._r_sequence",
    "black_it.samplers.r_sequence:RSequenceSampler._reset",
    "black_it.samplers.r_sequence:RSequenceSampler._set_random_state",
    "black_it.samplers.r_sequence:RSequenceSampler.sample_batch",
    "black_it.samplers.r_sequence:RSequenceSampler.compute_phi",
    "black_it.samplers.halton:_CachedPrimesCalculator.get_n_primes",
]
NUMBER_MODEL = "Z/R exact: start index a symbolic Int over the whole range [0, 2^16+2^12), digits by z3 div/mod by constants"
EXPLANATION = (
    "The real halton() runs with a symbolic start index s (module globals range/np rebound): its digit loop forks on the magnitude of "
    "the index and on every path z3 proves out[k][j] == sum_m digit_m(s+1+k, p_j) p_j^-(m+1) (reference unrolled with an unwinding "
    "assertion). The sampler objects run with the RNG contract stub: the cursor after a reseed is the first draw of the new stream in "
    "[20, 2^16), successive batches use consecutive indices (two batches of n == one of 2n, as terms in s), the unit cube is mapped "
    "affinely to the box. R-sequence: point k == frac(u + (s+k) alpha_j) with alpha_j = phi^-(j+1); consecutive points advance by alpha mod 1."
)
ASSUMPTIONS = [
    "digitize_data replaced by the identity when checking the pre-snapping values of sample_batch (snapping is C17's subject)",
    "RNG contract: integers(20, 2^16) in range and a function of (seed, draw counter); random() in [0,1)",
    "R-sequence: alpha taken as the concrete doubles the code computes (phi^(d+1) = phi + 1 checked numerically to 1e-13 for d=1..40; float accumulation outside the exact-real claim)",
    "get_n_primes(40) has no input to make symbolic: compared concretely with trial division (auxiliary, not a solver claim)",
]
OUTSIDE = ["float accumulation error of the digit sum", "more than 3 simultaneous symbolic dimensions (all 40 bases are covered one/two at a time in the thorough tier)"]
REQUIRED_LABELS = ["halton_radical_inverse", "halton_cursor_continuity", "halton_reset", "halton_box_mapping", "rseq_definition", "rseq_continuity", "rseq_reset", "primes_aux"]

S_MAX = 2**16 + 2**12


def bounds(tier):
    return {"quick": "halton(): s in [0, 2^16+2^12) symbolic, bases (2),(3),(2,3),(2,3,5) x 1..2 points, bases 7..19 singly; sampler: dims 1..2, batch sequences (1,1),(2,1),(1,2),(2,2); R-sequence dims 1..3, batches (2,2),(1,3)",
            "thorough": "every one of the first 40 primes singly and in adjacent pairs, up to 3 points; sampler dims 1..3 and batch sequences with n1+n2 <= 5"}[tier]


def radical_inverse_term(n, base):
    """sum of digits of n in `base` mirrored behind the point; (term, unwinding condition)."""
    M = 1
    while base**M < 2 * S_MAX:
        M += 1
    M += 1
    acc = z3.RealVal(0)
    q = n
    for m in range(M):
        digit = q % base
        acc = acc + z3.ToReal(digit) / z3.RealVal(base ** (m + 1))
        q = q / base
    return acc, q == 0


PRIMES40 = [2, 3, 5, 7, 11, 13, 17, 19, 23, 29, 31, 37, 41, 43, 47, 53, 59, 61, 67, 71, 73, 79, 83, 89, 97, 101, 103, 107, 109, 113,
            127, 131, 137, 139, 149, 151, 157, 163, 167, 173]


def _ri_concrete(n, b):
    r, d = Fraction(0), Fraction(1, b)
    while n > 0:
        n, rem = divmod(n, b)
        r += rem * d
        d /= b
    return r


def case_halton_fn(bases, npts):
    name = f"halton-{'_'.join(map(str, bases))}-x{npts}"

    def body(ctx):
        s = ctx.int("s", 0, S_MAX - 1)
        with patched(hm, range=sym_range):
            out = hm.halton(npts, np.array(bases), s)
        ctx.prove(z3.BoolVal(out.shape == (npts, len(bases))), "halton_radical_inverse", "shape")
        for k in range(npts):
            for j, b in enumerate(bases):
                ref, unwound = radical_inverse_term(s.t + 1 + k, b)
                ctx.prove(unwound, "halton_radical_inverse", f"unwinding assertion base {b}")
                ctx.prove(lift(out[k, j]) == ref, "halton_radical_inverse", f"point {k} base {b}")
        ctx.sample({"case": name, "paths_are": "digit-count classes of the start index"})

    def replay(cex):
        s = int(cex.values.get("s") or 0)
        out = hm.halton(npts, np.array(bases), s)
        for k in range(npts):
            for j, b in enumerate(bases):
                exp = _ri_concrete(s + 1 + k, b)
                if abs(Fraction(float(out[k, j])) - exp) > Fraction(1, 10**12):
                    return True, f"halton({npts}, {bases}, n_start={s})[{k},{j}] = {out[k, j]!r}, radical inverse of {s + 1 + k} in base {b} is {float(exp)!r}"
        return False, f"halton({npts}, {bases}, {s}) ok"

    return Case(name, body, replay, time_budget=500)


def case_halton_boundaries(bases):
    """Start indices around the digit-count boundaries (powers of each base): the index is a symbolic Int constrained to this
    finite set and concretised by forking, so the real halton() runs on plain ints - also when its arithmetic cannot be lifted."""
    name = f"halton-boundaries-{'_'.join(map(str, bases))}"
    pts = sorted({b**m + d for b in bases for m in range(1, 18) if b**m < S_MAX for d in (-3, -2, -1, 0) if 0 <= b**m + d < S_MAX} | {0, 1, 19, 20, 2**16 - 1, S_MAX - 3})

    def body(ctx):
        s = ctx.int("s", 0, S_MAX - 1)
        ctx.solver.add(z3.Or(*[s.t == v for v in pts]))
        sv = int(s)
        out = hm.halton(3, np.array(bases), sv)
        ok = out.shape == (3, len(bases))
        msgs = []
        for k in range(3):
            for j, b in enumerate(bases):
                exp = _ri_concrete(sv + 1 + k, b)
                if not ok or abs(Fraction(float(out[k, j])) - exp) > Fraction(1, 10**12):
                    msgs.append(f"index {sv + 1 + k} base {b}: {out[k, j]!r} vs {float(exp)!r}")
        ctx.prove(z3.BoolVal(ok and not msgs), "halton_radical_inverse", f"start index {sv}: " + ("; ".join(msgs[:2]) or "radical inverses"))

    def replay(cex):
        s = int(cex.values.get("s") or 0)
        out = hm.halton(3, np.array(bases), s)
        for k in range(3):
            for j, b in enumerate(bases):
                exp = _ri_concrete(s + 1 + k, b)
                if abs(Fraction(float(out[k, j])) - exp) > Fraction(1, 10**12):
                    return True, f"halton(3, {bases}, n_start={s})[{k},{j}] = {out[k, j]!r}, radical inverse of {s + 1 + k} in base {b} is {float(exp)!r}"
        return False, "ok"

    return Case(name, body, replay, time_budget=300, split=3)


def _identity_digitize(data, grid):
    return data


def case_halton_sampler(dims, batches):
    name = f"haltonsampler-d{dims}-{'_'.join(map(str, batches))}"
    bases = PRIMES40[:dims]

    def body(ctx):
        seed = ctx.int("seed", 0)
        seed2 = ctx.int("seed2", 0)
        lo = [ctx.real(f"lo{d}") for d in range(dims)]
        width = [ctx.real(f"w{d}", 0) for d in range(dims)]
        with patched(hm, range=sym_range, np=NPX, digitize_data=_identity_digitize), patched(seedable, default_rng=sym_default_rng):
            smp = hm.HaltonSampler(batch_size=1, random_state=seed)
            s0 = smp._sequence_index
            ctx.prove(z3.And(lift(s0) >= 20, lift(s0) < 2**16), "halton_reset", "start index in [20, 2^16)")
            # seed-determined: the start index is a draw of the stream seeded with `seed` (the constructor draws twice, a reseed once)
            ctx.prove(z3.Or(*[lift(s0) == DRAW_I(seed.t, z3.IntVal(k), z3.IntVal(20), z3.IntVal(2**16)) for k in range(4)]), "halton_reset", "start index is a draw of the seeded stream")

            class SP:  # minimal search-space view with symbolic bounds
                pass

            sp = SP()
            sp.dims = dims
            sp.parameters_bounds = np.array([lo, [l + w for l, w in zip(lo, width)]], dtype=object)
            sp.param_grid = None
            cursor = 0
            for n in batches:
                out = smp.sample_batch(n, sp, np.zeros((0, dims)), np.zeros(0))
                ctx.prove(z3.BoolVal(out.shape == (n, dims)), "halton_cursor_continuity", "batch shape")
                for k in range(n):
                    for j, b in enumerate(bases):
                        ref, unwound = radical_inverse_term(lift(s0) + 1 + cursor + k, b)
                        ctx.prove(lift(out[k, j]) == lo[j].t + ref * width[j].t, "halton_box_mapping" if cursor == 0 else "halton_cursor_continuity",
                                  f"batch starting at offset {cursor}: point {k} coordinate {j}")
                cursor += n
                ctx.prove(lift(smp._sequence_index) == lift(s0) + cursor, "halton_cursor_continuity", f"cursor after {cursor} points")
            # a reseed resets the cursor to the first draw of the new stream
            smp.random_state = seed2
            ctx.prove(lift(smp._sequence_index) == DRAW_I(seed2.t, z3.IntVal(0), z3.IntVal(20), z3.IntVal(2**16)), "halton_reset", "cursor after reseed")

    def replay(cex):
        v = cex.values
        seed = int(v.get("seed") or 0) % 2**32
        lo = [float(f(v.get(f"lo{d}", 0))) for d in range(dims)]
        w = [float(f(v.get(f"w{d}", 1))) or 1.0 for d in range(dims)]
        step = 2.0**-20
        space = SearchSpace([lo, [l + x for l, x in zip(lo, w)]], [x * step for x in w], verbose=False)
        with scripted_rng(v):
            smp = hm.HaltonSampler(batch_size=1, random_state=seed)
        s0 = int(smp._sequence_index)
        if not 20 <= s0 < 2**16:
            return True, f"start index {s0} outside [20, 2^16)"
        whole = hm.HaltonSampler(batch_size=1, random_state=seed)
        whole._sequence_index = s0
        cursor = 0
        parts = []
        for n in batches:
            out = smp.sample_batch(n, space, np.zeros((0, dims)), np.zeros(0))
            parts.append(out)
            for k in range(n):
                for j, b in enumerate(bases):
                    exp = lo[j] + float(_ri_concrete(s0 + 1 + cursor + k, b)) * w[j]
                    if abs(out[k, j] - exp) > 2 * step * abs(w[j]) + 1e-12 * abs(exp):
                        return True, f"seed={seed} start={s0}: batch at offset {cursor}, point {k} coord {j} = {out[k, j]!r}, expected about {exp!r}"
            cursor += n
        one = whole.sample_batch(sum(batches), space, np.zeros((0, dims)), np.zeros(0))
        if not np.array_equal(np.vstack(parts), one):
            return True, f"seed={seed}: batches {batches} differ from one batch of {sum(batches)}"
        smp.random_state = seed
        fresh = hm.HaltonSampler(batch_size=1, random_state=seed + 1)
        fresh.random_state = seed
        if smp._sequence_index != fresh._sequence_index:
            return True, "reseeding did not reset the cursor to the seed-determined start"
        return False, "ok"

    return Case(name, body, replay, time_budget=500)


def case_rseq(dims, batches):
    name = f"rseq-d{dims}-{'_'.join(map(str, batches))}"

    def body(ctx):
        seed = ctx.int("seed", 0)
        seed2 = ctx.int("seed2", 0)
        lo = [ctx.real(f"lo{d}") for d in range(dims)]
        width = [ctx.real(f"w{d}", 0) for d in range(dims)]
        with patched(rm, np=NPX, digitize_data=_identity_digitize), patched(seedable, default_rng=sym_default_rng):
            smp = rm.RSequenceSampler(batch_size=1, random_state=seed)
            s0, u = smp._sequence_index, smp._sequence_start
            ctx.prove(z3.And(lift(s0) >= 20, lift(s0) < 2**16, lift(u) >= 0, lift(u) < 1), "rseq_reset", "index in [20,2^16), offset in [0,1)")
            ctx.prove(z3.Or(*[z3.And(lift(s0) == DRAW_I(seed.t, z3.IntVal(k), z3.IntVal(20), z3.IntVal(2**16)), lift(u) == DRAW_R(seed.t, z3.IntVal(k + 1))) for k in range(4)]),
                      "rseq_reset", "index/offset are consecutive draws of the seeded stream")
            phi = rm.RSequenceSampler.compute_phi(dims)
            # the doubles numpy produces for phi^-(j+1) (an ulp may separate np.power from python's **; float pow is outside the claim)
            alpha_np = np.power(1 / phi, np.arange(1, dims + 1))
            ctx.prove(z3.BoolVal(all(abs(alpha_np[j] - phi ** -(j + 1)) < 1e-14 for j in range(dims))), "rseq_definition", "alpha_j = phi^-(j+1) (numerically)")
            alpha = [Fraction(float(a)) for a in alpha_np]

            class SP:
                pass

            sp = SP()
            sp.dims = dims
            sp.parameters_bounds = np.array([lo, [l + w for l, w in zip(lo, width)]], dtype=object)
            sp.param_grid = None
            cursor = 0
            prev = None
            for n in batches:
                out = smp.sample_batch(n, sp, np.zeros((0, dims)), np.zeros(0))
                ctx.prove(z3.BoolVal(out.shape == (n, dims)), "rseq_definition", "batch shape")
                for k in range(n):
                    row = []
                    for j in range(dims):
                        a = lift(alpha[j])
                        x = lift(u) + z3.ToReal(lift(s0) + cursor + k) * a
                        fr = x - z3.ToReal(z3.ToInt(x))
                        ctx.prove(lift(out[k, j]) == lo[j].t + fr * width[j].t, "rseq_definition", f"offset {cursor} point {k} coord {j}")
                        row.append(fr)
                    if prev is not None:
                        for j in range(dims):
                            y = prev[j] + lift(alpha[j])
                            ctx.prove(row[j] == y - z3.ToReal(z3.ToInt(y)), "rseq_continuity", "x_{k+1} = frac(x_k + alpha), also across the batch boundary")
                    prev = row
                cursor += n
                ctx.prove(lift(smp._sequence_index) == lift(s0) + cursor, "rseq_continuity", "cursor")
            smp.random_state = seed2
            ctx.prove(z3.And(lift(smp._sequence_index) == DRAW_I(seed2.t, z3.IntVal(0), z3.IntVal(20), z3.IntVal(2**16)),
                             lift(smp._sequence_start) == DRAW_R(seed2.t, z3.IntVal(1))), "rseq_reset", "reseed resets cursor and offset")

    def replay(cex):
        v = cex.values
        seed = int(v.get("seed") or 0) % 2**32
        lo = [float(f(v.get(f"lo{d}", 0))) for d in range(dims)]
        w = [float(f(v.get(f"w{d}", 1))) or 1.0 for d in range(dims)]
        step = 2.0**-20
        space = SearchSpace([lo, [l + x for l, x in zip(lo, w)]], [x * step for x in w], verbose=False)
        with scripted_rng(v):
            smp = rm.RSequenceSampler(batch_size=1, random_state=seed)
        s0, u = int(smp._sequence_index), float(smp._sequence_start)
        if not (20 <= s0 < 2**16 and 0 <= u < 1):
            return True, f"index/offset out of range: {s0}, {u}"
        phi = rm.RSequenceSampler.compute_phi(dims)
        cursor = 0
        for n in batches:
            out = smp.sample_batch(n, space, np.zeros((0, dims)), np.zeros(0))
            for k in range(n):
                for j in range(dims):
                    x = (Fraction(u) + (s0 + cursor + k) * Fraction((1 / phi) ** (j + 1)))
                    fr = float(x - math.floor(x))
                    exp = lo[j] + fr * w[j]
                    d = abs(out[k, j] - exp)
                    d = min(d, abs(abs(w[j]) - d))  # wrap-around at the cube boundary
                    if d > (2 * step + 1e-9) * abs(w[j]):
                        return True, f"seed={seed} index={s0} offset={u}: point at {cursor + k} coord {j} = {out[k, j]!r}, expected about {exp!r}"
            cursor += n
        return False, "ok"

    return Case(name, body, replay, time_budget=300)


def case_aux():
    def check():
        msgs = []
        calc = hm._CachedPrimesCalculator()
        for n in (1, 2, 5, 40, 17, 40):
            got = list(calc.get_n_primes(n))
            if got != PRIMES40[:n]:
                msgs.append(f"get_n_primes({n}) = {got}")
        trial = [p for p in range(2, 200) if all(p % q for q in range(2, int(p**0.5) + 1))][:40]
        if trial != PRIMES40:
            msgs.append("reference prime table wrong")
        for d in range(1, 41):
            phi = rm.RSequenceSampler.compute_phi(d)
            if abs(phi ** (d + 1) - (phi + 1)) > 1e-13 * (phi + 1):
                msgs.append(f"compute_phi({d}) = {phi} is not a root of x^(d+1) = x + 1")
        return msgs

    def body(ctx):
        msgs = check()
        ctx.prove(z3.BoolVal(not msgs), "primes_aux", "; ".join(msgs) or "first 40 primes and phi_d fixed points (concrete, auxiliary)")

    def replay(cex):
        msgs = check()
        return bool(msgs), "; ".join(msgs) or "ok"

    return Case("aux-primes-phi", body, replay)


def cases(tier, seed):
    cs = [case_aux()]
    if tier == "quick":
        for bases, n in [((2,), 2), ((3,), 2), ((2, 3), 2), ((2, 3, 5), 1), ((7,), 1), ((11,), 1), ((13,), 1), ((17,), 1), ((19,), 1), ((173,), 1)]:
            cs.append(case_halton_fn(bases, n))
        cs.append(case_halton_boundaries((2, 3)))
        cs.append(case_halton_boundaries((5, 7, 11)))
        for dims, bt in [(1, (1, 1)), (1, (2, 1)), (2, (1, 2)), (2, (2, 2))]:
            cs.append(case_halton_sampler(dims, bt))
        for dims, bt in [(1, (2, 2)), (2, (1, 3)), (3, (2, 1))]:
            cs.append(case_rseq(dims, bt))
    else:
        for p in PRIMES40:
            cs.append(case_halton_fn((p,), 3 if p < 20 else 2))
        for a, b in zip(PRIMES40, PRIMES40[1:]):
            cs.append(case_halton_fn((a, b), 1))
        cs.append(case_halton_fn((2, 3, 5), 2))
        for i in range(0, 40, 4):
            cs.append(case_halton_boundaries(tuple(PRIMES40[i : i + 4])))
        for dims in (1, 2, 3):
            for bt in [(1, 1), (2, 1), (1, 2), (2, 2), (3, 2), (1, 4)]:
                if dims == 3 and sum(bt) > 3:
                    continue
                cs.append(case_halton_sampler(dims, bt))
                cs.append(case_rseq(dims, bt))
    return cs


MANIFEST = {
    "category": "other",
    "text": "Symbolic execution of the real halton() with the start index a z3 Int over the whole admissible range [0, 2^16+2^12): per path (digit-count class) z3 proves every coordinate equals the radical-inverse digit sum (unrolled with an unwinding assertion). The sampler classes run against the RNG contract: cursor = first draw of the stream in [20, 2^16), reset on reseed, consecutive indices across batches (two batches == one), affine map to the box; the R-sequence points equal frac(u + (s+k) alpha_j) and advance by alpha mod 1.",
    "note": "Exact integer/real arithmetic (digit-sum float error outside the claim); digitize_data replaced by identity for the pre-snapping clauses; prime table and phi fixed point checked concretely (auxiliary); bases covered singly/pairwise.",
}
