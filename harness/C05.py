"""C05 — resuming from a checkpoint equals never having stopped."""
from __future__ import annotations

import contextlib
import io
import shutil
import tempfile
import warnings

import numpy as np
import z3

import black_it.calibrator as cal
from harness.common import Case, f
from harness.detcal import det_world, histories_equal, history, make_calibrator, make_sampler, shared_functions
from symx.core import lift
from symx.memfs import MemFS
from symx.core import reraise_if_harness  # noqa: E402

LEVEL = "model_checking"
FUNCTIONS = [
    "black_it.calibrator:Calibrator.calibrate", "black_it.calibrator:Calibrator.create_checkpoint", "black_it.calibrator:Calibrator.restore_from_checkpoint",
    "black_it.calibrator:Calibrator._set_samplers_seeds", "black_it.utils.json_pandas_checkpointing:save_calibrator_state",
    "black_it.utils.json_pandas_checkpointing:load_calibrator_state", "black_it.schedulers.round_robin:RoundRobinScheduler.update",
    "black_it.samplers.halton:HaltonSampler._halton", "black_it.samplers.r_sequence:RSequenceSampler._r_sequence",
    "black_it.samplers.particle_swarm:ParticleSwarmSampler.sample_batch", "black_it.samplers.cors:CORSSampler.sample_batch",
    "black_it.samplers.surrogate:MLSurrogateSampler.sample_batch",
]
NUMBER_MODEL = "as C01: draws are draw(seed, counter) terms; model/loss/learners/optimiser/halton()/snapping uninterpreted pure functions"
EXPLANATION = (
    "An uninterrupted real calibration of n batches and a segmented one run in the same solver context from the same symbolic seed; "
    "after every batch the segmented run either goes on, returns and is called again (second calibrate()), or is thrown away and "
    "restored from the checkpoint it just wrote (the real save/load/restore code on the in-memory file system) - the kind of each of the "
    "n-1 boundaries is a symbolic choice, so every composition of n with every boundary kind is a path. z3 proves the final histories "
    "equal cell by cell. Sampler cursors, swarm state, surrogate seed streams, the calibrator generator and the scheduler position all "
    "appear inside the compared terms (as draw counters and uninterpreted-function arguments), so state that is not carried over changes a term."
)
ASSUMPTIONS = [
    "pickle round-trips attribute values (deep copy stand-in because sampler state holds symbolic terms; real picklability is C04's subject)",
    "json / CSV (exact parser requested) / HDF5 stand-ins of C04",
    "as C01 for learners, optimiser, halton(), snapping; deduplication budget 0",
]
OUTSIDE = ["RL scheduler (cannot be checkpointed: C04 known finding; multi-session exchange: C10)", "more than 4 batches (quick) / 5 (thorough)"]
REQUIRED_LABELS = ["resume_equals_uninterrupted"]


def bounds(tier):
    return {"quick": "6 line-ups covering halton, r-sequence, uniform, pso, cors, xgb, rf; n = 3..4 batches; every pattern of {continue, second call, checkpoint+restore} over the n-1 boundaries (3^(n-1) paths)",
            "thorough": "adds gp, best-batch, repeated classes, n = 5"}[tier]


FOLDER = "/memfs/c05"


def case(name, lineup, n, E):
    def body(ctx):
        S = ctx.int("S", 0)
        shared = shared_functions(ctx)
        kinds = [int(ctx.int(f"boundary{g}", 0, 2)) for g in range(n - 1)]  # 0 continue, 1 second calibrate() call, 2 checkpoint + restore
        fs = MemFS()
        with det_world(fs):
            ctx.mul_abstract = any(k == "pso" for k, _ in lineup)  # swarm dynamics: products as uninterpreted terms (congruence suffices for equality of runs)
            seeds_u = [ctx.int(f"ctorU{i}", 0) for i in range(len(lineup))]
            seeds_v = [ctx.int(f"ctorV{i}", 0) for i in range(len(lineup))]
            U = make_calibrator(ctx, lineup, S, seeds_u, 1, False, None, shared, E=E)
            U.calibrate(n)
            V = make_calibrator(ctx, lineup, S, seeds_v, 1, False, FOLDER, shared, E=E)
            # segments
            seg = 1
            segs = []
            for g in range(n - 1):
                if kinds[g] == 0:
                    seg += 1
                else:
                    segs.append((seg, kinds[g]))
                    seg = 1
            segs.append((seg, None))
            for length, boundary in segs:
                V.calibrate(length)
                if boundary == 2:
                    V = cal.Calibrator.restore_from_checkpoint(FOLDER, shared["model"])
            histories_equal(ctx, history(U), history(V), "resume_equals_uninterrupted", f"{name}: boundaries {kinds} (0 continue, 1 new call, 2 restore)")
            ctx.prove(z3.BoolVal(V.current_batch_index == n and V.n_sampled_params == U.n_sampled_params), "resume_equals_uninterrupted", "counters")
            ctx.sample({"case": name, "boundaries": kinds})

    def replay(cex):
        kinds = [int(cex.values.get(f"boundary{g}") or 0) for g in range(n - 1)]
        S0 = int(cex.values.get("S") or 0) % 2**32
        # the seed is unconstrained on every path (it only occurs inside draw(seed, k)): any seed instantiates the counterexample
        for S in (S0, S0 + 1, S0 + 2, S0 + 3, S0 + 4):
            bad, info = replay_concrete(lineup, n, E, kinds, S)
            if bad:
                break
        return bad, info

    return Case(name, body, replay, time_budget=400, witness_paths=1, split=3 if n >= 4 else 0)


def _model(theta, N, seed):  # noqa: N803
    rng = np.random.default_rng(seed)
    return np.full((N, 1), float(theta[0])) + rng.normal(size=(N, 1)) * 0.05


def replay_concrete(lineup, n, E, kinds, S):
    from black_it.loss_functions.minkowski import MinkowskiLoss

    def build(folder):
        samplers = []
        for i, (kind, B) in enumerate(lineup):
            s = make_sampler(kind, B, 50 + i)
            if kind in ("xgb", "rf", "gp"):
                s._candidate_pool_size = 8
            samplers.append(s)
        return cal.Calibrator(loss_function=MinkowskiLoss(), real_data=np.array([[0.3], [0.6]]), model=_model, parameters_bounds=[[0.0], [1.0]],
                              parameters_precision=[1.0 / 256], ensemble_size=E, samplers=samplers, verbose=False, saving_folder=folder, random_state=S, n_jobs=1)

    tmp = tempfile.mkdtemp(prefix="verif-c05-")
    try:
        with contextlib.redirect_stdout(io.StringIO()), warnings.catch_warnings():
            warnings.simplefilter("ignore")
            U = build(None)
            U.calibrate(n)
            V = build(tmp)
            seg, segs = 1, []
            for g in range(n - 1):
                if kinds[g] == 0:
                    seg += 1
                else:
                    segs.append((seg, kinds[g]))
                    seg = 1
            segs.append((seg, None))
            for length, boundary in segs:
                V.calibrate(length)
                if boundary == 2:
                    V = cal.Calibrator.restore_from_checkpoint(tmp, _model)
        msgs = []
        for nm in ("params_samp", "losses_samp", "series_samp", "batch_num_samp", "method_samp"):
            x, y = getattr(U, nm), getattr(V, nm)
            if x.shape != y.shape or not np.array_equal(x, y):
                i = None if x.shape != y.shape else tuple(np.argwhere(x != y)[0])
                msgs.append(f"{nm} differs" + (f" (shapes {x.shape}/{y.shape})" if i is None else f" at {i}: {x[i]!r} vs {y[i]!r}"))
        return bool(msgs), f"seed {S}, line-up {lineup}, {n} batches cut as {kinds} (1 = second calibrate(), 2 = checkpoint+restore): " + ("; ".join(msgs[:3]) or "same history as the uninterrupted run")
    except Exception as e:  # noqa: BLE001
        reraise_if_harness(e)
        return True, f"segmented run raised {type(e).__name__}: {e}"
    finally:
        shutil.rmtree(tmp, ignore_errors=True)


def cases(tier, seed):
    cs = [
        case("halton-rseq", [("halton", 1), ("rseq", 2)], 4, 1),
        case("uniform-pso", [("uniform", 2), ("pso", 1)], 4, 1),
        case("halton-cors", [("halton", 2), ("cors", 1)], 4, 1),
        case("uniform-xgb", [("uniform", 2), ("xgb", 1)], 3, 1),
        case("rseq-rf", [("rseq", 2), ("rf", 1)], 3, 2),
        case("pso-alone", [("pso", 2)], 3, 1),
    ]
    if tier == "thorough":
        cs += [
            case("halton-gp", [("halton", 2), ("gp", 1)], 4, 1),
            case("uniform-bestbatch", [("uniform", 2), ("bestbatch", 1)], 3, 1),
            case("halton-halton", [("halton", 1), ("halton", 2)], 5, 1),
            case("cors-pso", [("uniform", 2), ("cors", 1), ("pso", 1)], 5, 1),
        ]
    return cs


MANIFEST = {
    "category": "model_checking",
    "text": "Relational symbolic execution of an uninterrupted and a segmented real calibration from the same symbolic seed; the kind of each of the n-1 batch boundaries (continue / second calibrate() / checkpoint + restore through the real save-load-restore code on the in-memory file system) is a symbolic choice, so every cut pattern is a path; z3 proves the final histories equal cell by cell. Hidden state (sequence cursors, swarm state, CORS batch counter, surrogate seed streams, calibrator generator, scheduler position) shows up inside the compared terms.",
    "note": "Pickle modelled as a deep copy (real picklability: C04); learners etc. as in C01; round-robin scheduler only (RL cannot be checkpointed - C04 known finding); n <= 4 quick.",
}
