#!/bin/bash
# Build the overlay venv used by every check (offline; wheels from /opt/veriftools/wheels).
set -e
cd "$(dirname "$0")"
if [ ! -x .venv/bin/python ] || ! .venv/bin/python -c "import z3, numpy, black_it" >/dev/null 2>&1; then
  rm -rf .venv
  /venv/bin/python -m venv .venv
  echo "import site; site.addsitedir('/venv/lib/python3.12/site-packages')" > .venv/lib/python3.12/site-packages/_verif_base.pth
  PIP_NO_INDEX=1 .venv/bin/pip install -q --no-index --find-links /opt/veriftools/wheels z3-solver crosshair-tool cvc5 >/dev/null 2>&1 \
    || PIP_NO_INDEX=1 .venv/bin/pip install -q --no-index --find-links /opt/veriftools/wheels z3-solver
fi
.venv/bin/python -c "import z3, numpy, black_it; print('setup ok: z3', z3.get_version_string(), 'numpy', numpy.__version__, 'black_it', black_it.__file__)"
