"""Cooperative baton scheduler: real OS threads, exactly one runnable at a time; at every synchronisation point
(queue put/get, session-flag read/write, thread start/join) the next thread to run is a choice made by the explorer,
so every interleaving at those points is a path.  Shims for threading.Thread / queue.Queue keep the code under test unchanged.
"""
from __future__ import annotations

import threading
from collections import deque


class ThreadKill(BaseException):
    """Unwind a controlled thread at the end of a path."""


class Deadlock(Exception):
    pass


class Baton:
    def __init__(self, choose, on_state=None):
        self.choose = choose  # choose(n, labels) -> index
        self.on_state = on_state  # callback(state_key) -> may raise to prune
        self.lock = threading.Lock()
        self.threads = {}  # name -> dict(event, status, pending, enabled)
        self.order = []
        self.current = "main"
        self.killing = False
        self.trace = []  # (thread, label)
        self.obs = {}  # per-thread observation history (determines a deterministic thread's local state)
        self.deadlocked = False
        self.abort = None
        self.aborted = None
        self.threads["main"] = {"event": threading.Event(), "status": "running", "pending": None, "enabled": None, "thread": None}
        self.order.append("main")
        self.obs["main"] = []

    # -- bookkeeping -----------------------------------------------------------------------------
    def me(self):
        n = getattr(_tls, "name", None)
        return n or "main"

    def observe(self, value):
        self.obs[self.me()].append(value)

    def register(self, name, thread):
        self.threads[name] = {"event": threading.Event(), "status": "ready", "pending": ("start", None), "enabled": None, "thread": thread}
        self.order.append(name)
        self.obs[name] = []

    def alive(self):
        return [n for n in self.order if n != "main" and self.threads[n]["status"] != "finished"]

    # -- the yield point ---------------------------------------------------------------------------
    def yield_point(self, label, enabled=None):
        """Called by the running thread BEFORE it performs the visible operation `label`.
        `enabled()` tells whether the operation can proceed (queue non-empty, joined thread finished)."""
        me = self.me()
        if self.killing:
            raise ThreadKill()
        if self.aborted is not None:
            # the path was abandoned (pruned / deadlocked): code unwinding through finally-blocks must not schedule any more
            if me == "main":
                raise self.aborted
            raise ThreadKill()
        st = self.threads[me]
        st["pending"], st["enabled"], st["status"] = label, enabled, "ready"
        self._dispatch(me)
        st["status"] = "running"
        self.trace.append((me, label))

    def _enabled(self):
        out = []
        for n in self.order:
            st = self.threads[n]
            if st["status"] != "ready":
                continue
            if st["enabled"] is None or st["enabled"]():
                out.append(n)
        return out

    def _abort_main(self, me, reason):
        """Stop this path: main raises `reason` (an exception instance); a non-main caller parks until killed."""
        self.aborted = reason
        if me == "main":
            raise reason
        self.abort = reason
        ev = self.threads[me]["event"]
        ev.clear()
        self.current = "main"
        self.threads["main"]["event"].set()
        ev.wait()
        raise ThreadKill()

    def _dispatch(self, me):
        en = self._enabled()
        if not en:
            self.deadlocked = True
            self._abort_main(me, Deadlock("no thread can proceed: " + ", ".join(f"{n} waits at {self.threads[n]['pending']}" for n in self.order if self.threads[n]["status"] == "ready")))
        if self.on_state is not None:
            r = self.on_state(self)
            if r is not None:
                self._abort_main(me, r)
        i = self.choose(len(en), [f"{n}:{self.threads[n]['pending']}" for n in en]) if len(en) > 1 else 0
        nxt = en[i]
        if nxt == me:
            return
        ev = self.threads[me]["event"]
        ev.clear()
        self.current = nxt
        self.threads[nxt]["event"].set()
        if me == "main":
            if not ev.wait(60.0):
                self.aborted = RuntimeError("baton: the main thread was never given the baton back within 60 s (harness failure)")
                raise self.aborted
        else:
            ev.wait()
        if me != "main" and self.killing:
            raise ThreadKill()
        if me == "main" and self.abort is not None:
            r, self.abort = self.abort, None
            raise r

    def finished(self, me):
        """Thread `me` ends: pass the baton on."""
        self.threads[me]["status"] = "finished"
        self.trace.append((me, "exit"))
        en = self._enabled()
        if not en:
            self.deadlocked = True
            self.aborted = self.abort = Deadlock("no thread can proceed after " + me + " ended: " + ", ".join(f"{n} waits at {self.threads[n]['pending']}" for n in self.order if self.threads[n]["status"] == "ready"))
            self.current = "main"
            self.threads["main"]["event"].set()
            return
        i = self.choose(len(en), [f"{n}:{self.threads[n]['pending']}" for n in en]) if len(en) > 1 else 0
        self.current = en[i]
        self.threads[en[i]]["event"].set()

    def kill_all(self):
        """End of path: unwind every controlled thread still alive (each is parked on its event)."""
        self.killing = True
        for n in self.order:
            if n == "main":
                continue
            st = self.threads[n]
            if st["status"] != "finished":
                st["event"].set()
        for n in self.order:
            t = self.threads[n]["thread"]
            if t is not None and t.real.is_alive():
                t.real.join(2.0)


_tls = threading.local()


def make_shims(baton_ref):
    """Thread / Queue classes bound to the baton returned by baton_ref()."""

    class BThread:
        _count = [0]

        def __init__(self, target=None, args=(), kwargs=None, daemon=None, name=None):
            b = baton_ref()
            k = len([n for n in b.order if n.startswith("agent")])
            self.name = f"agent{k}"
            self.target, self.args, self.kwargs = target, args, kwargs or {}
            self.exc = None
            self.real = threading.Thread(target=self._run, daemon=True)

        def _run(self):
            b = baton_ref()
            _tls.name = self.name
            st = b.threads[self.name]
            st["event"].wait()
            try:
                if b.killing:
                    return
                st["status"] = "running"
                b.trace.append((self.name, "start"))
                self.target(*self.args, **self.kwargs)
            except ThreadKill:
                return
            except BaseException as e:  # noqa: BLE001
                self.exc = e
            if not b.killing:
                b.finished(self.name)

        def start(self):
            b = baton_ref()
            b.register(self.name, self)
            self.real.start()
            b.yield_point(f"started {self.name}")

        def join(self, timeout=None):
            b = baton_ref()
            b.yield_point(f"join {self.name}", enabled=lambda: b.threads[self.name]["status"] == "finished")

        def is_alive(self):
            return baton_ref().threads[self.name]["status"] != "finished"

    class BQueue:
        _n = [0]

        def __init__(self, maxsize=0):
            self.items = deque()
            self.label = f"q{BQueue._n[0]}"
            BQueue._n[0] += 1

        def put(self, item, block=True, timeout=None):
            baton_ref().yield_point(f"put {self.label}")
            self.items.append(item)

        def get(self, block=True, timeout=None):
            b = baton_ref()
            b.yield_point(f"get {self.label}", enabled=lambda: len(self.items) > 0)
            v = self.items.popleft()
            b.observe(("got", self.label, _key(v)))
            return v

        def get_nowait(self):
            if not self.items:
                import queue

                raise queue.Empty()
            return self.items.popleft()

        def empty(self):
            return len(self.items) == 0

        def qsize(self):
            return len(self.items)

    return BThread, BQueue


def _key(v):
    try:
        from symx.core import Sym

        if isinstance(v, Sym):
            return ("sym", v.t.get_id())
        if isinstance(v, tuple):
            return tuple(_key(x) for x in v)
        import numpy as np

        if isinstance(v, np.ndarray):
            return ("arr", tuple(_key(x) for x in v.ravel()))
        return repr(v)
    except Exception:  # noqa: BLE001
        return repr(v)
