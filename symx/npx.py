"""Thin numpy proxy installed as the module-global ``np`` of a repo module under test.

Only the functions numpy cannot evaluate on object arrays are replaced; everything
else falls through to the real numpy (which then drives the symbolic scalars through
their Python operators).  Every replacement is validated against real numpy on
concrete inputs by ``selftest()`` at check start.
"""
from __future__ import annotations

import builtins
import math

import numpy as _np
import z3

from .core import Sym, SymBool, SymUnsupported, any_sym, cur, is_sym, lift, sym_ite


def _elementwise(fn_sym, fn_np):
    def f(x, *a, **k):
        if isinstance(x, Sym):
            return fn_sym(x, *a, **k)
        if isinstance(x, _np.ndarray) and x.dtype == object:
            out = _np.empty(x.shape, dtype=object)
            for idx in _np.ndindex(*x.shape):
                v = x[idx]
                out[idx] = fn_sym(v, *a, **k) if isinstance(v, Sym) else fn_np(v, *a, **k)
            return out
        if isinstance(x, (list, tuple)) and any_sym(x):
            return f(_np.array(x, dtype=object), *a, **k)
        return fn_np(x, *a, **k)

    return f


def _objarray(x):
    a = _np.empty(len(x), dtype=object)
    for i, v in enumerate(x):
        a[i] = v
    return a


class _F64(_np.float64):
    """np.float64 stand-in: a valid dtype, and a constructor that lets symbolic scalars pass through."""

    def __new__(cls, x=0.0):
        if is_sym(x):
            return x
        return _np.float64(x)


class _I64(_np.int64):
    def __new__(cls, x=0):
        if is_sym(x):
            return x
        return _np.int64(x)


def _is_float_dt(dtype):
    return dtype is None or dtype is float or (isinstance(dtype, type) and issubclass(dtype, _np.float64))


class IntObjArr(_np.ndarray):
    """Stand-in for an integer-typed numpy array that may have to hold symbolic values: an object array whose element
    assignment casts like numpy does for an int64 array - floats (concrete or symbolic reals) are truncated toward zero."""

    def __new__(cls, shape, fill=0):
        a = _np.empty(shape, dtype=object).view(cls)
        a.fill(builtins.int(fill))
        return a

    def __setitem__(self, key, value):
        def cast(v):
            if isinstance(v, Sym):
                return sym_int(v)
            if isinstance(v, (float, _np.floating)):
                return builtins.int(v)
            return v

        if isinstance(value, _np.ndarray) or isinstance(value, (list, tuple)):
            value = _np.array([cast(v) for v in _np.asarray(value, dtype=object).ravel()], dtype=object).reshape(_np.shape(value))
        else:
            value = cast(value)
        _np.ndarray.__setitem__(self, key, value)


def _infers_int(fill_value):
    """numpy's dtype inference for a concrete fill value: integer / bool kinds."""
    if isinstance(fill_value, Sym):
        return False
    try:
        return _np.result_type(fill_value).kind in "iub"
    except TypeError:
        return False


class NpProxy:
    """Module-like object: getattr falls back to real numpy."""

    def __init__(self, force_object=True):
        self._force_object = force_object

    def __getattr__(self, name):
        return getattr(_np, name)

    # -- constructors: object dtype so symbolic scalars can be stored ----------------
    def _dt(self, kw, args_dtype=None):
        if args_dtype is not None:
            return args_dtype
        return kw.get("dtype")

    def zeros(self, shape=None, dtype=None, **kw):
        if shape is None:
            shape = kw.pop("shape")
        if _is_float_dt(dtype):
            a = _np.empty(shape, dtype=object)
            a.fill(0)
            return a
        return _np.zeros(shape, dtype=dtype)

    def empty(self, shape=None, dtype=None, **kw):
        """np.empty for float64 results: an object array (so that symbolic values can be stored), pre-filled with 0.0"""
        if shape is None:
            shape = kw.pop("shape")
        if _is_float_dt(dtype):
            a = _np.empty(shape, dtype=object, order=kw.get("order", "C"))
            a.fill(0.0)
            return a
        return _np.empty(shape, dtype=dtype, **kw)

    def ones(self, shape=None, dtype=None, **kw):
        if shape is None:
            shape = kw.pop("shape")
        if _is_float_dt(dtype):
            a = _np.empty(shape, dtype=object)
            a.fill(1)
            return a
        return _np.ones(shape, dtype=dtype)

    def full(self, shape, fill_value, dtype=None):
        if dtype is None:
            if _infers_int(fill_value):
                return IntObjArr(shape, fill_value)  # np.full infers an integer array from an integer fill value
            a = _np.empty(shape, dtype=object)
            a.fill(fill_value)
            return a
        return _np.full(shape, fill_value, dtype=dtype)

    def zeros_like(self, a, dtype=None):
        if dtype is None and (isinstance(a, IntObjArr) or (isinstance(a, _np.ndarray) and a.dtype.kind in "iub")):
            return IntObjArr(_np.shape(a), 0)  # the element type is inherited
        return self.zeros(_np.shape(a), dtype=dtype)

    def array(self, obj, dtype=None, **kw):
        if any_sym(obj):
            return _np.array(obj, dtype=object, **kw)
        return _np.array(obj, dtype=dtype, **kw)

    def asarray(self, obj, dtype=None, **kw):
        if any_sym(obj):
            return _np.asarray(obj, dtype=object)
        return _np.asarray(obj, dtype=dtype, **kw)

    def copy(self, a):
        return _np.copy(a)

    def ascontiguousarray(self, a, dtype=None, **kw):
        """numpy semantics: NO copy when the argument already is a C-contiguous array of the requested type (a lifted object
        array stands for float64), otherwise a fresh contiguous copy."""
        if isinstance(a, _np.ndarray) and a.dtype == object:
            if _is_float_dt(dtype) and a.flags.c_contiguous:
                return a
            return _np.ascontiguousarray(a)
        if any_sym(a):
            return _np.array(a, dtype=object)
        return _np.ascontiguousarray(a, dtype=dtype, **kw)

    float64 = None  # set below (usable both as constructor and as dtype)

    # -- element-wise maths ---------------------------------------------------------
    fabs = staticmethod(_elementwise(lambda v: abs(v), _np.fabs))
    absolute = staticmethod(_elementwise(lambda v: abs(v), _np.absolute))
    sqrt = staticmethod(_elementwise(lambda v: v.sqrt(), _np.sqrt))
    exp = staticmethod(_elementwise(lambda v: v.exp(), _np.exp))
    log = staticmethod(_elementwise(lambda v: v.log(), _np.log))
    rint = staticmethod(_elementwise(lambda v: v.round_half_even(0), _np.rint))
    floor = staticmethod(_elementwise(lambda v: v.floor(), _np.floor))

    @staticmethod
    def round(x, decimals=0):
        return _elementwise(lambda v: v.round_half_even(decimals), lambda v: _np.round(v, decimals))(x)

    around = round

    @staticmethod
    def isnan(x):
        if any_sym(x) or (isinstance(x, _np.ndarray) and x.dtype == object):
            if isinstance(x, _np.ndarray):
                # symbolic values are finite reals; concrete members are tested one by one
                return _np.array([False if is_sym(v) else bool(_np.isnan(float(v))) for v in x.ravel()], dtype=bool).reshape(x.shape)
            return False
        return _np.isnan(x)

    @staticmethod
    def isfinite(x):
        """symbolic values are finite reals; concrete members (which may be inf/nan) are tested one by one"""
        if isinstance(x, _np.ndarray) and x.dtype == object:
            return _np.array([True if is_sym(v) else bool(_np.isfinite(float(v))) for v in x.ravel()], dtype=bool).reshape(x.shape)
        if is_sym(x):
            return True
        if isinstance(x, (list, tuple)) and any_sym(x):
            return NpProxy.isfinite(_np.array(x, dtype=object))
        return _np.isfinite(x)

    @staticmethod
    def isinf(x):
        if isinstance(x, _np.ndarray) and x.dtype == object:
            return _np.array([False if is_sym(v) else bool(_np.isinf(float(v))) for v in x.ravel()], dtype=bool).reshape(x.shape)
        if is_sym(x):
            return False
        return _np.isinf(x)

    @staticmethod
    def allclose(a, b, rtol=1e-05, atol=1e-08, equal_nan=False):  # noqa: FBT002
        r = NpProxy.isclose(a, b, rtol=rtol, atol=atol, equal_nan=equal_nan)
        if isinstance(r, _np.ndarray) and r.dtype == object:
            terms = [x.t if isinstance(x, SymBool) else z3.BoolVal(bool(x)) for x in r.ravel()]
            return SymBool(z3.And(*terms)) if terms else True
        if isinstance(r, SymBool):
            return r
        return bool(_np.all(r))

    @staticmethod
    def isclose(a, b, rtol=1e-05, atol=1e-08, equal_nan=False):  # noqa: FBT002
        """numpy's definition |a - b| <= atol + rtol * |b| (finite symbolic reals; scalars or equal-shape arrays)."""
        if not (any_sym(a) or any_sym(b) or any_sym(atol) or any_sym(rtol)):
            return _np.isclose(a, b, rtol=rtol, atol=atol, equal_nan=equal_nan)

        def one(x, y):
            d = x - y
            d = sym_ite(d >= 0, d, -d) if is_sym(d) else abs(d)
            ay = sym_ite(y >= 0, y, -y) if is_sym(y) else abs(y)
            return d <= atol + rtol * ay

        if isinstance(a, _np.ndarray) or isinstance(b, _np.ndarray):
            aa, bb = _np.broadcast_arrays(_np.asarray(a, dtype=object), _np.asarray(b, dtype=object))
            out = _np.empty(aa.shape, dtype=object)
            for idx in _np.ndindex(*aa.shape):
                out[idx] = one(aa[idx], bb[idx])
            return out
        return one(a, b)

    @staticmethod
    def sign(x):
        return _elementwise(lambda v: sym_ite(v > 0, 1, sym_ite(v < 0, -1, 0)), _np.sign)(x)

    @staticmethod
    def power(a, b):
        if any_sym(a) or any_sym(b):
            return a**b
        return _np.power(a, b)

    @staticmethod
    def divmod(a, b):
        if any_sym(a) or any_sym(b):
            return _np.floor_divide(a, b), _np.remainder(a, b)
        return _np.divmod(a, b)

    @staticmethod
    def clip(a, a_min=None, a_max=None, **kw):
        if "a_min" in kw:
            a_min = kw["a_min"]
        if any_sym(a) or any_sym(a_min) or any_sym(a_max):
            def one(v, lo, hi):
                r = v
                if lo is not None and not (isinstance(lo, (float, _np.floating)) and math.isinf(lo)):
                    r = sym_ite(_lt(r, lo), lo, r)
                if hi is not None and not (isinstance(hi, (float, _np.floating)) and math.isinf(hi)):
                    r = sym_ite(_lt(hi, r), hi, r)
                return r

            if isinstance(a, _np.ndarray) or isinstance(a_min, _np.ndarray) or isinstance(a_max, _np.ndarray):
                arrs = [_np.asarray(a, dtype=object)]
                lo = _np.asarray(a_min, dtype=object) if a_min is not None else None
                hi = _np.asarray(a_max, dtype=object) if a_max is not None else None
                shape = _np.broadcast(*[x for x in (arrs[0], lo, hi) if x is not None]).shape
                A = _np.broadcast_to(arrs[0], shape)
                L = _np.broadcast_to(lo, shape) if lo is not None else None
                H = _np.broadcast_to(hi, shape) if hi is not None else None
                out = _np.empty(shape, dtype=object)
                for idx in _np.ndindex(*shape):
                    out[idx] = one(A[idx], None if L is None else L[idx], None if H is None else H[idx])
                return out
            return one(a, a_min, a_max)
        return _np.clip(a, a_min, a_max)

    # -- reductions that need help on object arrays --------------------------------------
    @staticmethod
    def mean(a, axis=None, **kw):
        if any_sym(a):
            a = _np.asarray(a, dtype=object)
            n = a.size if axis is None else a.shape[axis]
            return _np.sum(a, axis=axis) / n
        return _np.mean(a, axis=axis, **kw)

    average = mean

    @staticmethod
    def sum(a, axis=None, **kw):
        return _np.sum(a, axis=axis, **kw)

    @staticmethod
    def min(a, axis=None, **kw):
        if any_sym(a) and axis is None:
            flat = list(_np.asarray(a, dtype=object).ravel())
            r = flat[0]
            for v in flat[1:]:
                r = sym_ite(_lt(v, r), v, r)
            return r
        return _np.min(a, axis=axis, **kw)

    @staticmethod
    def max(a, axis=None, **kw):
        if any_sym(a) and axis is None:
            flat = list(_np.asarray(a, dtype=object).ravel())
            r = flat[0]
            for v in flat[1:]:
                r = sym_ite(_lt(r, v), v, r)
            return r
        return _np.max(a, axis=axis, **kw)

    amin = min
    amax = max

    # -- structural functions lacking object support ------------------------------------------
    @staticmethod
    def unique(ar, return_index=False, return_inverse=False, return_counts=False, axis=None, **kw):
        if not any_sym(ar):
            ar = _np.asarray(ar)
            if ar.dtype == object:
                ar = ar.astype(float)
            return _np.unique(ar, return_index=return_index, return_inverse=return_inverse, return_counts=return_counts, axis=axis, **kw)
        if kw:
            raise SymUnsupported(f"np.unique keyword(s) {sorted(kw)} on symbolic data")
        ar = _np.asarray(ar, dtype=object)
        rows = [tuple(r) for r in ar] if axis == 0 else list(ar.ravel())
        # group by symbolic equality (forks). The groups come in order of first appearance, NOT sorted: callers that rely on the
        # sorted order of numpy's result are outside what this stand-in supports (none of the encoded ones does)
        groups, first, inverse = [], [], []
        for pos, r in enumerate(rows):
            for gi, g in enumerate(groups):
                if _rows_equal(g[0], r):
                    g[1] += 1
                    inverse.append(gi)
                    break
            else:
                groups.append([r, 1])
                first.append(pos)
                inverse.append(len(groups) - 1)
        if axis == 0:
            unq = _np.empty((len(groups), ar.shape[1]), dtype=object)
            for i, g in enumerate(groups):
                for j, v in enumerate(g[0]):
                    unq[i, j] = v
        else:
            unq = _objarray([g[0] for g in groups])
        counts = _np.array([g[1] for g in groups], dtype=int)
        out = [unq]
        if return_index:
            out.append(_np.array(first, dtype=int))
        if return_inverse:
            out.append(_np.array(inverse, dtype=int))
        if return_counts:
            out.append(counts)
        return tuple(out) if len(out) > 1 else unq

    @staticmethod
    def linspace(start, stop, num=50, **kw):
        if any_sym(start) or any_sym(stop):
            if num == 1:
                return _objarray([start])
            step = (stop - start) / (num - 1)
            vals = [start + step * i for i in range(num - 1)] + [stop]
            return _objarray(vals)
        return _np.linspace(start, stop, num, **kw)

    @staticmethod
    def arange(*args, dtype=None, **kw):
        if not any_sym(args):
            return _np.arange(*args, dtype=dtype, **kw)
        if len(args) == 1:
            start, stop, step = 0, args[0], 1
        elif len(args) == 2:
            start, stop, step = args[0], args[1], 1
        else:
            start, stop, step = args[:3]
        # numpy: length = ceil((stop - start) / step) (0 if negative); element k = start + k*step
        q = (stop - start) / step
        qt = lift(q)
        if qt.sort().kind() == z3.Z3_INT_SORT:
            ln = Sym(qt)
        else:
            ln = Sym(-z3.ToInt(-qt))
        n = cur().concretize_int(z3.If(ln.t > 0, ln.t, z3.IntVal(0)))
        return _objarray([start + step * k for k in range(n)])

    @staticmethod
    def digitize(x, bins, right=False):
        if any_sym(x) or any_sym(bins):
            # for monotonically increasing bins np.digitize(x, bins, right) == searchsorted(bins, x, 'left' if right else 'right')
            b = _np.asarray(bins, dtype=object)
            for i in range(len(b) - 1):
                if not bool(_lt(b[i], b[i + 1]) | (b[i] == b[i + 1])):
                    raise ValueError("bins must be monotonically increasing or decreasing")
            return _np.searchsorted(b, _np.asarray(x, dtype=object), side="left" if right else "right")
        return _np.digitize(x, bins, right=right)

    @staticmethod
    def searchsorted(a, v, side="left", **kw):
        return _np.searchsorted(a, v, side=side, **kw)


def _lt(a, b):
    r = a < b
    if r is NotImplemented:
        r = b > a
    return r


def _rows_equal(r1, r2):
    if isinstance(r1, tuple):
        for x, y in zip(r1, r2):
            if not bool(x == y):
                return False
        return True
    return bool(r1 == r2)


NpProxy.float64 = _F64
NpProxy.int64 = _I64
NPX = NpProxy()


def np_with(**overrides):
    """A proxy instance with extra per-harness overrides (each one is a recorded stub)."""
    return type("NpProxyX", (NpProxy,), {k: staticmethod(v) for k, v in overrides.items()})()


class patched:
    """Context manager: rebind module globals (np, float, ...) of repo modules for the harness process."""

    def __init__(self, *modules, **names):
        self.modules = modules
        self.names = {"np": NPX}
        self.names.update(names)
        self._saved = []

    def __enter__(self):
        for m in self.modules:
            for k, v in self.names.items():
                had = hasattr(m, k) if k not in ("np",) else True
                if k == "np" and not hasattr(m, "np"):
                    continue
                self._saved.append((m, k, m.__dict__.get(k, _MISSING)))
                setattr(m, k, v)
        return self

    def __exit__(self, *exc):
        for m, k, old in reversed(self._saved):
            if old is _MISSING:
                try:
                    delattr(m, k)
                except AttributeError:
                    pass
            else:
                setattr(m, k, old)
        self._saved = []
        return False


_MISSING = object()


def sym_range(*args):
    """range() whose bounds may be symbolic Ints with a concrete length."""
    if not any(is_sym(a) for a in args):
        return builtins.range(*args)
    if len(args) == 1:
        lo, hi = 0, args[0]
    else:
        lo, hi = args[0], args[1]
    n = (hi - lo)
    n = n.__index__() if is_sym(n) else int(n)
    return [lo + i for i in builtins.range(max(n, 0))]


def sym_float(x):
    if is_sym(x):
        return x
    return builtins.float(x)


def sym_int(x):
    if isinstance(x, Sym):
        if x.is_int:
            return x
        # python int() truncates toward zero
        t = x.t
        return Sym(z3.If(t >= 0, z3.ToInt(t), -z3.ToInt(-t)))
    return builtins.int(x)


def selftest(n=200, seed=0):
    """Differential validation of the proxy replacements against real numpy on concrete inputs."""
    rng = _np.random.default_rng(seed)
    P = NPX
    cnt = 0
    for _ in range(n):
        a = rng.normal(size=rng.integers(1, 6))
        ao = a.astype(object)
        assert _np.allclose(_np.array(P.fabs(ao), dtype=float), _np.fabs(a)); cnt += 1
        lo, hi = sorted(rng.normal(size=2))
        assert _np.allclose(_np.array(P.clip(a, lo, hi), dtype=float), _np.clip(a, lo, hi)); cnt += 1
        assert math.isclose(float(P.mean(ao)), float(_np.mean(a)), abs_tol=1e-12); cnt += 1
        k = int(rng.integers(2, 7))
        assert _np.allclose(P.linspace(lo, hi, k), _np.linspace(lo, hi, k)); cnt += 1
        ia = rng.integers(0, 50, size=4)
        b = rng.integers(2, 7, size=4)
        q, r = P.divmod(ia, b)
        q2, r2 = _np.divmod(ia, b)
        assert (q == q2).all() and (r == r2).all(); cnt += 1
        z = P.zeros((2, 3)); assert z.shape == (2, 3) and (z == 0).all(); cnt += 1
    return cnt
