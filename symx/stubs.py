"""Environment stubs with written contracts (DESIGN §1.3)."""
from __future__ import annotations

import copy

import numpy as np
import z3

from .core import Sym, SymBool, cur, is_sym, lift

_I, _Rr = z3.IntSort(), z3.RealSort()
# draw(seed, k, lo, hi): the k-th scalar drawn from the stream seeded with `seed`
DRAW_I = z3.Function("draw_int", _I, _I, _I, _I, _I)
DRAW_R = z3.Function("draw_real", _I, _I, _Rr)
ENTROPY = z3.Function("os_entropy", _I, _I)  # default_rng(None): k-th unseeded generator of this run

_unseeded = [0]


def reset_unseeded():
    _unseeded[0] = 0


class _BitGen:
    def __init__(self, g):
        self._g = g

    @property
    def state(self):
        return {"bit_generator": "SYM", "seed": self._g.seed, "k": self._g.k}

    @state.setter
    def state(self, st):
        self._g.seed = st["seed"]
        self._g.k = st["k"]


class SymGenerator:
    """Contract of numpy.random.Generator as far as black-it uses it.

    Every scalar draw is the uninterpreted term draw(seed, k, ...) of the stream's seed term and its draw counter;
    equal (seed, counter) => equal draws (congruence): exactly what 'seeded' means. Ranges are the documented ones.
    """

    def __init__(self, seed=None):
        if seed is None:
            _unseeded[0] += 1
            seed = Sym(ENTROPY(z3.IntVal(_unseeded[0])))
        self.seed = seed
        self.k = 0
        self.bit_generator = _BitGen(self)
        self.log = []
        c = cur()
        self.gid = -1
        if c is not None:
            self.gid = c.scratch.get("n_generators", 0)
            c.scratch["n_generators"] = self.gid + 1

    def _seed_t(self):
        return lift(self.seed)

    def _next_int(self, lo, hi):
        k = self.k
        self.k += 1
        lo_t, hi_t = lift(lo), lift(hi)
        t = DRAW_I(self._seed_t(), z3.IntVal(k), lo_t, hi_t)
        c = cur()
        if c is not None:
            c.axiom(z3.Implies(lo_t < hi_t, z3.And(t >= lo_t, t < hi_t)))
            c.inputs[f"rng{self.gid}_d{k}"] = t
        self.log.append(("int", k))
        return Sym(t)

    def _next_real(self):
        k = self.k
        self.k += 1
        t = DRAW_R(self._seed_t(), z3.IntVal(k))
        c = cur()
        if c is not None:
            c.axiom(z3.And(t >= 0, t < 1))
            c.inputs[f"rng{self.gid}_d{k}"] = t
        self.log.append(("real", k))
        return Sym(t)

    @staticmethod
    def _shape(size):
        if size is None:
            return None
        if isinstance(size, (int, np.integer)):
            return (int(size),)
        return tuple(int(s) for s in size)

    def _fill(self, size, fn):
        shp = self._shape(size)
        if shp is None:
            return fn()
        a = np.empty(shp, dtype=object)
        for idx in np.ndindex(*shp):
            a[idx] = fn()
        return a

    def integers(self, low, high=None, size=None, **kw):
        if high is None:
            low, high = 0, low
        return self._fill(size, lambda: self._next_int(low, high))

    def random(self, size=None, **kw):
        return self._fill(size, self._next_real)

    def choice(self, a, size=None, replace=True, **kw):
        if isinstance(a, (int, np.integer)):
            n = int(a)
            pool = None
        else:
            pool = np.asarray(a)
            n = len(pool)
        shp = self._shape(size)
        count = 1 if shp is None else int(np.prod(shp))
        idxs = []
        for _ in range(count):
            i = self._next_int(0, n)
            if not replace:
                c = cur()
                for j in idxs:
                    c.solver.add(i.t != j.t)
            idxs.append(i)
        if not replace and count > n:
            raise ValueError("Cannot take a larger sample than population when replace is False")

        def pick(i):
            if pool is None:
                return i
            # selection without forking: ite chain over the symbolic index
            r = pool[n - 1]
            for j in range(n - 2, -1, -1):
                cond = SymBool(i.t == j)
                from .core import sym_ite

                r = sym_ite(cond, pool[j], r)
            return r

        vals = [pick(i) for i in idxs]
        if shp is None:
            return vals[0]
        out = np.empty(count, dtype=object)
        for j, v in enumerate(vals):
            out[j] = v
        return out.reshape(shp)


def sym_default_rng(seed=None):
    return SymGenerator(seed)


class SymParallel:
    """Contract of joblib.Parallel: the task generator is consumed in the parent, in order; with n_jobs != 1 each
    task's function and arguments are deep-copied (loky pickles them); results come back in submission order."""

    def __init__(self, n_jobs=None, **kw):
        self.n_jobs = n_jobs

    def __call__(self, tasks):
        tasks = list(tasks)  # generator consumed in the parent, in order
        out = [None] * len(tasks)
        order = list(range(len(tasks)))
        c = cur()
        if c is not None and getattr(c, "parallel_reverse", False) and self.n_jobs not in (1, None):
            order.reverse()  # execution order among workers is not the submission order
        for i in order:
            fn, args, kwargs = tasks[i]
            if self.n_jobs != 1:
                args = tuple(_detach(a) for a in args)
            out[i] = fn(*args, **kwargs)
        return out


def _detach(a):
    if isinstance(a, np.ndarray):
        return a.copy()
    return a


def sym_delayed(fn):
    def d(*args, **kwargs):
        return (fn, args, kwargs)

    return d


class ScriptedGenerator:
    """Replay-side stand-in for numpy.random.Generator used with the REAL (unpatched) code: returns the draws of a
    solver model (each inside the documented range of the call), then falls back to a real generator."""

    def __init__(self, script, fallback_seed=0):
        self.script = list(script)
        self.pos = 0
        self.real = np.random.default_rng(fallback_seed)
        self.bit_generator = self.real.bit_generator

    def _next(self):
        if self.pos < len(self.script):
            v = self.script[self.pos]
            self.pos += 1
            return v
        self.pos += 1
        return None

    def random(self, size=None, **kw):
        if size is None:
            v = self._next()
            return float(v) if v is not None else self.real.random()
        shp = (size,) if isinstance(size, (int, np.integer)) else tuple(size)
        out = np.empty(shp)
        for idx in np.ndindex(*shp):
            v = self._next()
            out[idx] = float(v) if v is not None else self.real.random()
        return out

    def integers(self, low, high=None, size=None, **kw):
        if high is None:
            low, high = 0, low

        def one():
            v = self._next()
            if v is None or not (low <= int(v) < high):
                return int(self.real.integers(low, high))
            return int(v)

        if size is None:
            return np.int64(one())
        shp = (size,) if isinstance(size, (int, np.integer)) else tuple(size)
        out = np.empty(shp, dtype=np.int64)
        for idx in np.ndindex(*shp):
            out[idx] = one()
        return out

    def choice(self, a, size=None, replace=True, **kw):
        pool = np.arange(a) if isinstance(a, (int, np.integer)) else np.asarray(a)
        n = len(pool)
        shp = None if size is None else ((size,) if isinstance(size, (int, np.integer)) else tuple(size))
        count = 1 if shp is None else int(np.prod(shp))
        idxs = []
        for _ in range(count):
            v = self._next()
            i = int(v) if v is not None and 0 <= int(v) < n else int(self.real.integers(0, n))
            if not replace:
                while i in idxs:
                    i = (i + 1) % n
            idxs.append(i)
        if shp is None:
            return pool[idxs[0]]
        return pool[np.array(idxs)].reshape(shp)


def script_from(values, gid):
    """Ordered draws of generator `gid` from a counterexample's values."""
    pref = f"rng{gid}_d"
    items = sorted(((int(k[len(pref):]), v) for k, v in values.items() if k.startswith(pref)), key=lambda kv: kv[0])
    out = []
    for i, (k, v) in enumerate(items):
        while len(out) < k:
            out.append(None)
        out.append(v)
    return out


class scripted_rng:
    """Replay-side: every generator the REAL code creates through black_it.utils.seedable.default_rng returns the draws the
    solver model assigned to the generator created at the same position (then falls back to a real, seeded generator)."""

    def __init__(self, values):
        self.values = values
        self.n = 0

    def __enter__(self):
        import black_it.utils.seedable as seedable

        self._mod = seedable
        self._old = seedable.default_rng

        def mk(seed=None):
            gid = self.n
            self.n += 1
            fb = seed if isinstance(seed, (int, np.integer)) else 0
            return ScriptedGenerator(script_from(self.values, gid), int(fb) % 2**32)

        seedable.default_rng = mk
        return self

    def __exit__(self, *exc):
        self._mod.default_rng = self._old
        return False
