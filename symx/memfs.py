"""In-memory symbolic file system + stand-ins for json / pickle / pandas / h5py as the checkpointing code uses them.

Contracts (DESIGN §1.3): JSON and pickle round-trip exactly or raise; to_csv writes the exact repr of every double;
read_csv returns the written double exactly iff float_precision="round_trip", otherwise an arbitrary double within one
ulp (pandas documents the default C parser as fast but not round-trip exact); open("w") truncates; a crash leaves every
file in one of {absent, old, empty, strict prefix (unparseable, or for CSV: fewer rows), new}; an HDF5 dataset is
resized first and written afterwards.
"""
from __future__ import annotations

import copy
import pickle as _real_pickle

import numpy as np
import z3

from .core import SymUnsupported, Sym, cur, is_sym, lift


class Crash(BaseException):
    """The process dies here (BaseException: nothing in the code under test may swallow it)."""


class Entry:
    def __init__(self, kind, content=None, version=None):
        self.kind = kind  # json | pickle | csv | h5 | empty | corrupt
        self.content = content
        self.version = version

    def clone(self):
        return Entry(self.kind, copy.deepcopy(self.content) if self.kind not in ("pickle",) else self.content, self.version)


class MemFS:
    def __init__(self):
        self.files = {}
        self.dirs = set()
        self.ops = []  # (label)
        self.crash_before = None  # op index at which Crash is raised before the operation is applied
        self.partial_at = None  # op index of a write that is applied partially, then Crash
        self.version = None  # tag written into entries (which save produced the file)
        self.csv_partial_rows = None  # symbolic/int: how many complete rows survive a partial CSV write
        self.read_csv_kwargs = []

    # every mutation goes through here
    def op(self, label, is_write=False):
        i = len(self.ops)
        self.ops.append(label)
        if self.crash_before is not None and i == self.crash_before:
            raise Crash(f"crash before op {i}: {label}")
        return is_write and self.partial_at is not None and i == self.partial_at

    def snapshot(self):
        s = MemFS()
        s.files = {k: v.clone() for k, v in self.files.items()}
        s.dirs = set(self.dirs)
        return s


class MemPath:
    def __init__(self, fs, p):
        self.fs = fs
        self.p = str(p).rstrip("/") or "/"

    def __truediv__(self, o):
        return MemPath(self.fs, self.p + "/" + str(o))

    def __fspath__(self):
        return self.p

    def __str__(self):
        return self.p

    def resolve(self):
        return self

    def exists(self):
        return self.p in self.fs.files or self.p in self.fs.dirs

    def mkdir(self, parents=False, exist_ok=False):
        self.fs.op(f"mkdir {self.p}")
        self.fs.dirs.add(self.p)

    def open(self, mode="r"):
        return MemFile(self, mode)

    def replace(self, target):
        """os.replace: atomic rename over the target."""
        target = target if isinstance(target, MemPath) else MemPath(self.fs, target)
        self.fs.op(f"rename {self.p} -> {target.p}")
        if self.p not in self.fs.files:
            raise FileNotFoundError(self.p)
        self.fs.files[target.p] = self.fs.files.pop(self.p)
        return target

    rename = replace

    def unlink(self, missing_ok=False):
        self.fs.op(f"unlink {self.p}")
        if self.p in self.fs.files:
            del self.fs.files[self.p]
        elif not missing_ok:
            raise FileNotFoundError(self.p)

    @property
    def name(self):
        return self.p.rsplit("/", 1)[-1]

    @property
    def parent(self):
        return MemPath(self.fs, self.p.rsplit("/", 1)[0] or "/")

    def with_name(self, name):
        return self.parent / name

    def with_suffix(self, suffix):
        base = self.name.rsplit(".", 1)[0] if "." in self.name else self.name
        return self.parent / (base + suffix)

    def is_file(self):
        return self.p in self.fs.files

    def is_dir(self):
        return self.p in self.fs.dirs


class MemFile:
    def __init__(self, path, mode):
        self.path, self.mode = path, mode
        fs = path.fs
        if "w" in mode:
            fs.op(f"truncate {path.p}")
            fs.files[path.p] = Entry("empty", version=fs.version)
        elif path.p not in fs.files:
            raise FileNotFoundError(path.p)

    def __enter__(self):
        return self

    def __exit__(self, *exc):
        return False

    def close(self):
        return None

    def write(self, data):
        self._store("corrupt" if data else "empty", None)

    def _store(self, kind, content):
        fs = self.path.fs
        partial = fs.op(f"write {self.path.p}", is_write=True)
        if partial:
            fs.files[self.path.p] = Entry("corrupt", version=fs.version)
            raise Crash(f"crash in the middle of writing {self.path.p}")
        fs.files[self.path.p] = Entry(kind, content, version=fs.version)

    def _load(self, kind, exc):
        e = self.path.fs.files[self.path.p]
        if e.kind != kind:
            raise exc(f"{self.path.p}: unreadable ({e.kind})")
        return e.content


def make_path_class(fs):
    def P(p):  # noqa: N802
        return p if isinstance(p, MemPath) else MemPath(fs, p)

    return P


# ---- json -----------------------------------------------------------------------------------------------------
class JsonStub:
    class JSONDecodeError(ValueError):
        pass

    def __init__(self, real_json):
        self._real = real_json
        self.JSONEncoder = real_json.JSONEncoder

    def _enc(self, o, cls):
        if isinstance(o, dict):
            return {str(k): self._enc(v, cls) for k, v in o.items()}
        if isinstance(o, (list, tuple)):
            return [self._enc(v, cls) for v in o]
        if isinstance(o, np.ndarray):
            if cls is None:
                raise TypeError("Object of type ndarray is not JSON serializable")
            return self._enc(o.tolist(), cls)
        if is_sym(o) or o is None or isinstance(o, (bool, str)):
            return o
        if isinstance(o, (np.integer, np.bool_)):
            raise TypeError(f"Object of type {type(o).__name__} is not JSON serializable")
        if isinstance(o, (int, float)):
            return o  # float repr round-trips exactly
        from fractions import Fraction

        if isinstance(o, Fraction):
            return o
        raise TypeError(f"Object of type {type(o).__name__} is not JSON serializable")

    def dump(self, obj, f, cls=None, **kw):
        f._store("json", self._enc(obj, cls))

    def dumps(self, obj, **kw):
        return self._real.dumps(obj, **kw)

    def loads(self, s, **kw):
        return self._real.loads(s, **kw)

    def load(self, f, **kw):
        return copy.deepcopy(f._load("json", JsonStub.JSONDecodeError))


# ---- pickle ------------------------------------------------------------------------------------------------------
class PickleStub:
    """The real pickle is executed on the (concrete) object, so unpicklable members are found, not assumed away."""

    UnpicklingError = _real_pickle.UnpicklingError

    def dump(self, obj, f, **kw):
        data = _real_pickle.dumps(obj)
        f._store("pickle", data)

    def load(self, f, **kw):
        return _real_pickle.loads(f._load("pickle", _real_pickle.UnpicklingError))

    dumps = staticmethod(_real_pickle.dumps)
    loads = staticmethod(_real_pickle.loads)


# ---- pandas --------------------------------------------------------------------------------------------------------
class MemSeries(np.ndarray):
    def __new__(cls, vals):
        a = np.empty(len(vals), dtype=object)
        for i, v in enumerate(vals):
            a[i] = v
        return a.view(cls)

    def to_numpy(self):
        return np.asarray(self).copy()

    def tolist(self):
        return list(np.asarray(self))


class MemFrame:
    def __init__(self, cols, fs=None):
        self.cols = {k: list(v) for k, v in cols.items()}

    def __getitem__(self, k):
        return MemSeries(self.cols[k])

    def dropna(self, **kw):
        """pandas.DataFrame.dropna(): rows with any missing cell are removed (a NaN written by to_csv is read back as missing)."""
        import math

        n = len(next(iter(self.cols.values()))) if self.cols else 0
        keep = [i for i in range(n) if not any(isinstance(v[i], float) and math.isnan(v[i]) for v in self.cols.values())]
        return MemFrame({k: [v[i] for i in keep] for k, v in self.cols.items()})

    def reset_index(self, **kw):
        return self

    def fillna(self, value, **kw):
        import math

        return MemFrame({k: [value if (isinstance(x, float) and math.isnan(x)) else x for x in v] for k, v in self.cols.items()})

    def __len__(self):
        return len(next(iter(self.cols.values()))) if self.cols else 0

    def to_csv(self, path, **kw):
        path = path if isinstance(path, MemPath) else None
        fs = path.fs
        fs.op(f"truncate {path.p}")
        fs.files[path.p] = Entry("empty", version=fs.version)
        partial = fs.op(f"write {path.p}", is_write=True)
        n = len(next(iter(self.cols.values()))) if self.cols else 0
        if partial:
            # a strict prefix of the text: some complete rows survive (the last line may be cut => treated as lost)
            keep = fs.csv_partial_rows if fs.csv_partial_rows is not None else 0
            fs.files[path.p] = Entry("csv", {"cols": {k: v[:keep] for k, v in self.cols.items()}, "rows": keep, "partial": True}, version=fs.version)
            raise Crash(f"crash in the middle of writing {path.p}")
        fs.files[path.p] = Entry("csv", {"cols": {k: list(v) for k, v in self.cols.items()}, "rows": n, "partial": False}, version=fs.version)


class PandasStub:
    def __init__(self, fs):
        self.fs = fs
        outer = self

        def _frame(d):
            return MemFrame({k: (list(v) if not isinstance(v, np.ndarray) else list(v)) for k, v in d.items()})

        class DataFrame:
            """pandas.DataFrame(data, columns=...) for a dict of columns or a 2-d array / list of rows, and DataFrame.from_dict"""

            def __new__(cls, data=None, index=None, columns=None, **kw):
                if isinstance(data, dict):
                    d = data if columns is None else {k: data[k] for k in columns}
                    return _frame(d)
                arr = np.asarray(data, dtype=object)
                if arr.ndim != 2 or columns is None or len(columns) != arr.shape[1]:
                    raise SymUnsupported("pandas.DataFrame constructor form not modelled by the in-memory stand-in")
                return _frame({k: list(arr[:, j]) for j, k in enumerate(columns)})

            @staticmethod
            def from_dict(d, **kw):
                return _frame(d)

        self.DataFrame = DataFrame

    def read_csv(self, path, **kw):
        self.fs.read_csv_kwargs.append(dict(kw))
        p = str(path)
        if p not in self.fs.files:
            raise FileNotFoundError(p)
        e = self.fs.files[p]
        if e.kind == "empty":
            raise ValueError("No columns to parse from file")  # pandas.errors.EmptyDataError is a ValueError
        if e.kind != "csv":
            raise ValueError(f"{p}: unreadable ({e.kind})")
        exact = kw.get("float_precision") == "round_trip"
        cols = {}
        c = cur()
        for k, vals in e.content["cols"].items():
            out = []
            for i, v in enumerate(vals):
                if exact or isinstance(v, (int, np.integer)) or (is_sym(v) and v.is_int):
                    out.append(v)
                else:
                    # default C parser: fast, not guaranteed to round-trip -> any value within one ulp (relative 2^-52)
                    n = c.scratch.get("csv_deltas", 0)
                    c.scratch["csv_deltas"] = n + 1
                    d = c.real(f"csv_delta{n}")
                    vt = lift(v)
                    vt = z3.ToReal(vt) if vt.sort().kind() == z3.Z3_INT_SORT else vt
                    av = z3.If(vt >= 0, vt, -vt)
                    c.solver.add(d.t <= av / (2**52), d.t >= -av / (2**52))
                    out.append(Sym(vt + d.t))
            cols[k] = out
        return MemFrame(cols)


def _lossy(v):
    c = cur()
    if c is None:
        return v
    n = c.scratch.get("lossy", 0)
    c.scratch["lossy"] = n + 1
    d = c.real(f"storage_delta{n}")
    vt = lift(v)
    vt = z3.ToReal(vt) if vt.sort().kind() == z3.Z3_INT_SORT else vt
    av = z3.If(vt >= 0, vt, -vt)
    c.solver.add(d.t <= av / (2**20), d.t >= -av / (2**20))
    return Sym(vt + d.t)


# ---- h5py ------------------------------------------------------------------------------------------------------------
class MemDataset:
    def __init__(self, fs, path, arr):
        self.fs, self.path = fs, path
        self.arr = arr

    @property
    def shape(self):
        return self.arr.shape

    def resize(self, size, axis=None):
        """h5py.Dataset.resize: a full shape tuple, or a new length of one axis"""
        shape = tuple(size) if axis is None else tuple(int(size) if i == axis else d for i, d in enumerate(self.arr.shape))
        self.fs.op(f"h5 resize {self.path}")
        new = np.zeros(shape, dtype=object)
        n = min(shape[0], self.arr.shape[0])
        new[:n] = self.arr[:n]
        self.arr = new
        self.fs.files[self.path].content["data"] = self.arr

    def __setitem__(self, k, v):
        partial = self.fs.op(f"h5 write {self.path}", is_write=True)
        v = np.asarray(v, dtype=object)
        if partial:
            # only the first half of the slab reaches the disk
            tmp = self.arr[k].copy()
            h = len(v) // 2
            tmp[:h] = v[:h]
            self.arr[k] = tmp
            raise Crash(f"crash in the middle of writing {self.path}")
        self.arr[k] = v

    def __getitem__(self, k):
        return self.arr[k].copy()


class MemH5File:
    def __init__(self, fs, path, mode):
        self.fs, self.path, self.mode = fs, str(path), mode
        if mode == "w":
            fs.op(f"truncate {self.path}")
            fs.files[self.path] = Entry("empty", version=fs.version)
        elif self.path not in fs.files:
            raise FileNotFoundError(self.path)
        elif fs.files[self.path].kind != "h5":
            raise OSError(f"Unable to open file (file signature not found): {self.path} is {fs.files[self.path].kind}")
        if mode == "a":
            fs.op(f"h5 open-append {self.path}")

    def __enter__(self):
        return self

    def __exit__(self, *exc):
        return False

    def create_dataset(self, name, data=None, maxshape=None, dtype=None):
        partial = self.fs.op(f"h5 create {self.path}", is_write=True)
        if partial:
            self.fs.files[self.path] = Entry("corrupt", version=self.fs.version)
            raise Crash(f"crash in the middle of writing {self.path}")
        arr = np.array(data, dtype=object).copy()
        if not (dtype is None or dtype in ("float64", "f8", "<f8", float) or dtype is np.float64):
            # any storage type other than binary64 is a lossy conversion: each stored value is some nearby value
            for idx in np.ndindex(*arr.shape):
                arr[idx] = _lossy(arr[idx])
        self.fs.files[self.path] = Entry("h5", {"data": arr, "name": name}, version=self.fs.version)
        return MemDataset(self.fs, self.path, arr)

    def __getitem__(self, name):
        e = self.fs.files[self.path]
        if e.kind != "h5" or e.content.get("name") != name:
            raise KeyError(name)
        return MemDataset(self.fs, self.path, e.content["data"])


class H5Stub:
    def __init__(self, fs):
        self.fs = fs

    def File(self, path, mode="r"):  # noqa: N802
        return MemH5File(self.fs, path, mode)
