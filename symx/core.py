"""symx core: symbolic scalars living inside numpy object arrays + path explorer.

The real functions of /repo are executed as ordinary Python; every symbolic
value is a small object wrapping a z3 term.  ``SymBool.__bool__`` is the fork
point: the explorer asks z3 which outcomes are feasible under the current path
condition, follows one and schedules the other (depth first, by re-execution
with a decision prefix).  Obligations are discharged by z3 on every path
(``prove``): unsat of the negation = holds for every value on that path.
"""
from __future__ import annotations

import math
import time
from fractions import Fraction

import numpy as np
import z3

INF = float("inf")


class SymUnsupported(Exception):
    """An operation the encoding does not cover (reported as harness error)."""


class PathAbort(BaseException):
    """Abandon the current path (infeasible / pruned). BaseException on purpose."""


class Inconclusive(Exception):
    """Solver said unknown / budget exhausted."""


class HarnessLimit(BaseException):
    """The HARNESS (not the library) failed: it reached for a private name / signature that no longer exists. BaseException so
    that the broad `except Exception` blocks of replayers do not turn it into a 'reproduced' violation."""


_VERIF_DIR = __import__("os").path.dirname(__import__("os").path.dirname(__import__("os").path.abspath(__file__)))
_HARNESS_ERRORS = (AttributeError, NameError, ImportError, TypeError, KeyError, IndexError, AssertionError, UnboundLocalError)


def _defined_in_checker(obj):
    """Is `obj` (or its class / underlying function) defined in a file of the checker?"""
    import inspect
    import os

    for o in (obj, getattr(obj, "__func__", None), getattr(obj, "__wrapped__", None), type(obj)):
        if o is None:
            continue
        try:
            fn = os.path.abspath(inspect.getsourcefile(o) or "")
        except (TypeError, OSError):
            continue
        if fn.startswith(_VERIF_DIR) and "/.venv/" not in fn:
            return True
    return False


def harness_originated(e):
    """True when `e` is of the checker's own making rather than the library's:
    (a) it never passed through a frame of the library (e.g. `sched._in_queue` in driver code after a rename), or
    (b) library code tripped over an INCOMPLETE stand-in of the checker: AttributeError on an object defined in /verif, or a
        TypeError about the signature of a callable defined in /verif (the real dependency has that attribute / parameter)."""
    import os
    import re
    import sys

    try:
        import black_it

        lib = os.path.dirname(os.path.abspath(black_it.__file__))
    except Exception:  # noqa: BLE001
        lib = "/nonexistent"
    tb = e.__traceback__
    frames = []
    while tb is not None:
        frames.append(os.path.abspath(tb.tb_frame.f_code.co_filename))
        tb = tb.tb_next
    if not any(fn.startswith(lib) for fn in frames):
        return any(fn.startswith(_VERIF_DIR) and "/.venv/" not in fn for fn in frames)
    if isinstance(e, AttributeError) and getattr(e, "obj", None) is not None and _defined_in_checker(e.obj):
        return True
    if isinstance(e, TypeError):
        m = re.match(r"^([A-Za-z_][\w.]*)\(\) (got an unexpected keyword|got multiple values|takes|missing)", str(e))
        if m:
            leaf = m.group(1).split(".")
            for mod in list(sys.modules.values()):
                f = getattr(mod, "__file__", None) or ""
                if not (os.path.abspath(f).startswith(_VERIF_DIR) and "/.venv/" not in f):
                    continue
                o = mod
                for part in leaf:
                    o = getattr(o, part, None)
                    if o is None:
                        break
                if o is not None and callable(o):
                    return True
            # ... or a callable of that name defined anywhere in the checker (nested classes of stand-ins, local classes)
            import gc

            for o in gc.get_objects():
                try:
                    if callable(o) and getattr(o, "__name__", None) == leaf[-1] and _defined_in_checker(o):
                        return True
                except Exception:  # noqa: BLE001, S112
                    continue
    return False


def clear_library_caches():
    """functools caches of the library must not carry objects from one symbolic path (built with stand-ins bound into the
    library's modules) into another path or into a replay on the real dependencies."""
    import sys

    for name, mod in list(sys.modules.items()):
        if name == "black_it" or name.startswith("black_it."):
            for v in list(vars(mod).values()):
                for o in (v, *(vars(v).values() if isinstance(v, type) else ())):
                    cc = getattr(o, "cache_clear", None)
                    if callable(cc):
                        try:
                            cc()
                        except Exception:  # noqa: BLE001, S110
                            pass


def reraise_if_harness(e):
    """First statement of every broad except-block in harness code: an error of the harness's own making is not evidence."""
    if isinstance(e, HarnessLimit):
        raise e
    if isinstance(e, _HARNESS_ERRORS) and harness_originated(e):
        raise HarnessLimit(f"{type(e).__name__}: {e} (raised by checker code, not by the library: a private name or signature the harness relies on has changed)") from e


# ----------------------------------------------------------------------------
# lifting


def _frac_to_z3(fr: Fraction):
    return z3.RealVal(str(fr.numerator) + "/" + str(fr.denominator)) if fr.denominator != 1 else z3.RealVal(fr.numerator)


def lift(o):
    """Python/numpy scalar or Sym -> z3 arithmetic term (NotImplemented if impossible)."""
    if isinstance(o, Sym):
        return o.t
    if isinstance(o, SymBool):
        return z3.If(o.t, z3.IntVal(1), z3.IntVal(0))
    if isinstance(o, (bool, np.bool_)):
        return z3.IntVal(1 if o else 0)
    if isinstance(o, (int, np.integer)):
        return z3.IntVal(int(o))
    if isinstance(o, (float, np.floating)):
        f = float(o)
        if math.isinf(f) or math.isnan(f):
            raise SymUnsupported(f"non-finite constant {f} in symbolic arithmetic")
        return _frac_to_z3(Fraction(f))
    if isinstance(o, Fraction):
        return _frac_to_z3(o)
    return NotImplemented


def is_sym(o) -> bool:
    return isinstance(o, (Sym, SymBool))


def any_sym(a) -> bool:
    if is_sym(a):
        return True
    if isinstance(a, np.ndarray):
        if a.dtype != object:
            return False
        return any(is_sym(x) for x in a.flat)
    if isinstance(a, (list, tuple)):
        return any(any_sym(x) for x in a)
    return False


def _is_int(t) -> bool:
    return t.sort().kind() == z3.Z3_INT_SORT


def _real(t):
    if _is_int(t):
        if z3.is_int_value(t):
            return z3.RealVal(t.as_long())
        return z3.ToReal(t)
    return t


# uninterpreted transcendental functions (shared names => congruence across impl/reference)
_R = z3.RealSort()
UF_SQRT = z3.Function("uf_sqrt", _R, _R)
UF_EXP = z3.Function("uf_exp", _R, _R)
UF_LOG = z3.Function("uf_log", _R, _R)
UF_POW = z3.Function("uf_pow", _R, _R, _R)
UF_RECIP = z3.Function("uf_recip", _R, _R)
UF_RND = z3.Function("uf_rnd", _R, _R)
UF_MUL = z3.Function("uf_mul", _R, _R, _R)


def _size(t, limit=4000):
    seen, stack, n = set(), [t], 0
    while stack and n < limit:
        x = stack.pop()
        i = x.get_id()
        if i in seen:
            continue
        seen.add(i)
        n += 1
        stack.extend(x.children())
    return n


def canon(t):
    """Sum-of-monomials normal form for (moderately sized) arguments of uninterpreted functions: polynomially equal
    arguments built in different orders become the same term, so congruence needs no nonlinear reasoning."""
    if _size(t, 600) >= 600:
        return t
    try:
        return z3.simplify(t, som=True)
    except z3.Z3Exception:
        return t


def _is_num(t):
    return z3.is_rational_value(t) or z3.is_int_value(t)


def mul_terms(a, b):
    """a*b; in 'mul_abstract' mode a product of two non-constant terms is an uninterpreted application with ground sign/zero
    lemmas (all true of the reals => unsat in the abstraction implies unsat in the reals). Used for sign obligations only."""
    c = _CUR
    if c is None or not c.mul_abstract or _is_num(a) or _is_num(b):
        return a * b
    a, b = _real(a), _real(b)
    if a.get_id() > b.get_id():
        a, b = b, a
    m = UF_MUL(a, b)
    k = ("mul", a.get_id(), b.get_id())
    if k not in c._axioms:
        c._axioms.add(k)
        c.solver.add(z3.Implies(z3.Or(a == 0, b == 0), m == 0), z3.Implies(z3.And(a != 0, b != 0), m != 0),
                     z3.Implies(z3.Or(z3.And(a >= 0, b >= 0), z3.And(a <= 0, b <= 0)), m >= 0),
                     z3.Implies(z3.Or(z3.And(a >= 0, b <= 0), z3.And(a <= 0, b >= 0)), m <= 0))
        if a.eq(b):
            c.solver.add(m >= 0)
    return m


class Sym:
    """A symbolic real/int scalar."""

    __slots__ = ("t",)
    # let numpy arrays treat us as an opaque object scalar
    __array_priority__ = 0

    def __init__(self, t):
        self.t = t

    # -- helpers
    @property
    def is_int(self):
        return _is_int(self.t)

    def _b(self, o, f, swap=False):
        ot = lift(o)
        if ot is NotImplemented:
            return NotImplemented
        a, b = (ot, self.t) if swap else (self.t, ot)
        r = f(a, b)
        c = _CUR
        if c is not None and c.rnd_mode:
            r = c.rnd(r)
        return Sym(r)

    # -- arithmetic
    def __add__(self, o):
        return self._b(o, lambda a, b: a + b)

    def __radd__(self, o):
        return self._b(o, lambda a, b: a + b, True)

    def __sub__(self, o):
        return self._b(o, lambda a, b: a - b)

    def __rsub__(self, o):
        return self._b(o, lambda a, b: a - b, True)

    def __mul__(self, o):
        return self._b(o, mul_terms)

    def __rmul__(self, o):
        return self._b(o, mul_terms, True)

    @staticmethod
    def _div(a, b):
        a, b = _real(a), _real(b)
        if not _is_num(b):
            sb = z3.simplify(b)
            if _is_num(sb):
                b = sb  # e.g. (lo + W) - lo: a constant after cancellation
        ctx = cur()
        if ctx is not None and ctx.recip_mode and not z3.is_rational_value(b) and not z3.is_int_value(b):
            b = canon(b)  # canonical form: commutative variants of a denominator share one application
            r = UF_RECIP(b)
            ctx.axiom(z3.Implies(b != 0, mul_terms(b, r) == 1))
            ctx.axiom(z3.And(z3.Implies(b > 0, r > 0), z3.Implies(b < 0, r < 0)))
            ctx.scratch.setdefault("denominators", []).append(b)
            return mul_terms(a, r)
        return a / b

    def __truediv__(self, o):
        return self._b(o, Sym._div)

    def __rtruediv__(self, o):
        return self._b(o, Sym._div, True)

    @staticmethod
    def _floordiv(a, b):
        if _is_int(a) and _is_int(b):
            # python floor division; z3 `div` floors only for positive divisors
            if z3.is_int_value(b) and b.as_long() > 0:
                return a / b
            return z3.If(b > 0, a / b, (-a) / (-b))
        q = _real(a) / _real(b)
        return z3.ToReal(z3.ToInt(q))

    def __floordiv__(self, o):
        return self._b(o, Sym._floordiv)

    def __rfloordiv__(self, o):
        return self._b(o, Sym._floordiv, True)

    @staticmethod
    def _mod(a, b):
        if _is_int(a) and _is_int(b):
            if z3.is_int_value(b) and b.as_long() > 0:
                return a % b
            return a - b * Sym._floordiv(a, b)
        a, b = _real(a), _real(b)
        return a - b * z3.ToReal(z3.ToInt(a / b))

    def __mod__(self, o):
        return self._b(o, Sym._mod)

    def __rmod__(self, o):
        return self._b(o, Sym._mod, True)

    def __divmod__(self, o):
        return (self // o, self % o)

    def __neg__(self):
        return Sym(-self.t)

    def __pos__(self):
        return self

    def __abs__(self):
        return Sym(z3.If(self.t >= 0, self.t, -self.t))

    def __pow__(self, e):
        if isinstance(e, (int, np.integer)) or (isinstance(e, (float, np.floating)) and float(e).is_integer()):
            n = int(e)
            if n >= 0:
                r = z3.IntVal(1) if self.is_int else z3.RealVal(1)
                for _ in range(n):
                    r = mul_terms(r, self.t)
                return Sym(r)
            return 1 / (self ** (-n))
        if isinstance(e, (float, np.floating)) and float(e) == 0.5:
            return self.sqrt()
        et = lift(e)
        if et is NotImplemented:
            return NotImplemented
        b, ex = canon(_real(self.t)), _real(et)
        r = UF_POW(b, ex)
        c = cur()
        if c is not None:
            c.axiom(z3.Implies(b >= 0, r >= 0))
            c.axiom(z3.Implies(z3.And(b == 0, ex > 0), r == 0))
            c.axiom(z3.Implies(z3.And(b > 0), r > 0))
        return Sym(r)

    def __rpow__(self, b):
        bt = lift(b)
        if bt is NotImplemented:
            return NotImplemented
        return Sym(UF_POW(_real(bt), _real(self.t)))

    # -- transcendental hooks used by the np proxy
    def sqrt(self):
        x = canon(_real(self.t))
        r = UF_SQRT(x)
        ctx = cur()
        if ctx is not None:
            ctx.axiom(z3.Implies(x >= 0, z3.And(r >= 0, mul_terms(r, r) == x)))
        return Sym(r)

    def exp(self):
        x = canon(_real(self.t))
        r = UF_EXP(x)
        ctx = cur()
        if ctx is not None:
            ctx.axiom(r > 0)
        return Sym(r)

    def log(self):
        return Sym(UF_LOG(canon(_real(self.t))))

    def floor(self):
        if self.is_int:
            return self
        return Sym(z3.ToInt(self.t))

    def round_half_even(self, decimals=0):
        """np.round / builtin round model: half-to-even at `decimals` decimals (exact reals)."""
        if self.is_int:
            return self
        scale = 10 ** int(decimals)
        y = self.t * scale
        f = z3.ToInt(y)
        fr = y - z3.ToReal(f)
        half = z3.RealVal("1/2")
        r = z3.If(fr < half, f, z3.If(fr > half, f + 1, z3.If(f % 2 == 0, f, f + 1)))
        return Sym(z3.ToReal(r) / scale)

    rint = round_half_even

    def __round__(self, n=None):
        r = self.round_half_even(0 if n is None else n)
        return r

    # -- comparisons (lazy: fork happens at bool())
    def _c(self, o, f):
        if isinstance(o, (float, np.floating)) and math.isinf(float(o)):
            return None
        ot = lift(o)
        if ot is NotImplemented:
            return NotImplemented
        return SymBool(f(self.t, ot))

    def __lt__(self, o):
        r = self._c(o, lambda a, b: a < b)
        return SymBool(z3.BoolVal(float(o) > 0)) if r is None else r

    def __le__(self, o):
        r = self._c(o, lambda a, b: a <= b)
        return SymBool(z3.BoolVal(float(o) > 0)) if r is None else r

    def __gt__(self, o):
        r = self._c(o, lambda a, b: a > b)
        return SymBool(z3.BoolVal(float(o) < 0)) if r is None else r

    def __ge__(self, o):
        r = self._c(o, lambda a, b: a >= b)
        return SymBool(z3.BoolVal(float(o) < 0)) if r is None else r

    def __eq__(self, o):
        r = self._c(o, lambda a, b: a == b)
        return SymBool(z3.BoolVal(False)) if r is None else r

    def __ne__(self, o):
        r = self._c(o, lambda a, b: a != b)
        return SymBool(z3.BoolVal(True)) if r is None else r

    def __hash__(self):
        return hash(self.t)

    # -- conversions
    def __bool__(self):
        return bool(self != 0)

    def __index__(self):
        if not self.is_int:
            raise SymUnsupported("index of a non-integer symbolic value")
        return cur().concretize_int(self.t)

    def __int__(self):
        if self.is_int:
            return cur().concretize_int(self.t)
        # int() truncates toward zero; the feasible values are explored by forking (bounded by what the code established
        # about the value, e.g. a preceding clip; an unbounded one ends as SymUnsupported = inconclusive)
        t = self.t
        return cur().concretize_int(z3.If(t >= 0, z3.ToInt(t), -z3.ToInt(-t)))

    def __float__(self):
        v = cur().unique_value(self.t) if cur() is not None else None
        if v is None:
            raise SymUnsupported("float() of a symbolic value (needs a proxy at this site)")
        return float(v)

    def __repr__(self):
        return f"Sym({self.t})"

    # numpy calls these names for some object-dtype ufuncs
    def conjugate(self):
        return self

    @property
    def real(self):
        return self

    @property
    def imag(self):
        return 0


class SymBool:
    __slots__ = ("t",)

    def __init__(self, t):
        self.t = t

    def __bool__(self):
        c = cur()
        if c is None:
            s = z3.simplify(self.t)
            if z3.is_true(s):
                return True
            if z3.is_false(s):
                return False
            raise SymUnsupported("bool() of symbolic condition outside an exploration")
        return c.decide(self.t)

    @staticmethod
    def _l(o):
        if isinstance(o, SymBool):
            return o.t
        if isinstance(o, (bool, np.bool_)):
            return z3.BoolVal(bool(o))
        return NotImplemented

    def __and__(self, o):
        ot = self._l(o)
        return NotImplemented if ot is NotImplemented else SymBool(z3.And(self.t, ot))

    __rand__ = __and__

    def __or__(self, o):
        ot = self._l(o)
        return NotImplemented if ot is NotImplemented else SymBool(z3.Or(self.t, ot))

    __ror__ = __or__

    def __xor__(self, o):
        ot = self._l(o)
        return NotImplemented if ot is NotImplemented else SymBool(z3.Xor(self.t, ot))

    __rxor__ = __xor__

    def __invert__(self):
        return SymBool(z3.Not(self.t))

    def __repr__(self):
        return f"SymBool({self.t})"

    def __hash__(self):
        return hash(self.t)


def sym_ite(c, a, b):
    """if-then-else without forking."""
    ct = c.t if isinstance(c, SymBool) else z3.BoolVal(bool(c))
    at, bt = lift(a), lift(b)
    if _is_int(at) != _is_int(bt):
        at, bt = _real(at), _real(bt)
    return Sym(z3.If(ct, at, bt))


# ----------------------------------------------------------------------------
# exploration context

_CUR = None


def cur():
    return _CUR


def z3_to_py(v):
    """z3 numeral -> int / Fraction / bool (None if not a numeral)."""
    if z3.is_int_value(v):
        return v.as_long()
    if z3.is_rational_value(v):
        return Fraction(v.numerator_as_long(), v.denominator_as_long())
    if z3.is_algebraic_value(v):
        a = v.approx(30)
        return Fraction(a.numerator_as_long(), a.denominator_as_long())
    if z3.is_true(v):
        return True
    if z3.is_false(v):
        return False
    try:
        if z3.is_fp_value(v):
            import math as _m

            if v.isNaN():
                return float("nan")
            if v.isInf():
                return float("-inf") if v.isNegative() else float("inf")
            sv = v.as_string()
            return Fraction(float(_fp_to_float(v)))
    except Exception:  # noqa: BLE001
        pass
    return None


class _Forked(int):
    """A decision taken at a genuine fork (both outcomes feasible); int 0/1 so it works as a truth value."""

    def __repr__(self):
        return f"F{int(self)}"


def _fp_to_float(v):
    """exact value of a z3 FP numeral"""
    import numpy as _np

    bv = z3.simplify(z3.fpToIEEEBV(v)).as_long()
    nbits = v.ebits() + v.sbits()
    if nbits == 16:
        return float(_np.array([bv], dtype=_np.uint16).view(_np.float16)[0])
    if nbits == 32:
        return float(_np.array([bv], dtype=_np.uint32).view(_np.float32)[0])
    return float(_np.array([bv], dtype=_np.uint64).view(_np.float64)[0])


class _Chosen(int):
    """A binary scheduling choice (counts as a split unit when the path space is partitioned across workers)."""

    def __repr__(self):
        return f"C{int(self)}"


class Cex:
    """A counterexample: obligation label + concrete values of the named inputs."""

    def __init__(self, label, values, detail="", path=None, kind="obligation"):
        self.label = label
        self.values = values  # name -> int | Fraction | bool
        self.detail = detail
        self.path = path or []
        self.kind = kind
        self.alternatives = []

    def to_json(self):
        def enc(v):
            if isinstance(v, Fraction):
                return {"num": str(v.numerator), "den": str(v.denominator), "float": float(v)}
            return v

        return {
            "label": self.label,
            "kind": self.kind,
            "detail": self.detail,
            "values": {k: enc(v) for k, v in self.values.items()},
            "path": "".join("1" if d else "0" for d in self.path if isinstance(d, bool))[:200],
            "decisions": [["f" if isinstance(d, _Forked) else "b" if isinstance(d, bool) else "c", int(d)] for d in self.path if not isinstance(d, tuple)][:4000],
        }


class Stats:
    def __init__(self):
        self.paths = 0
        self.aborted = 0
        self.decisions = 0
        self.forks = 0
        self.q_sat = 0
        self.q_unsat = 0
        self.q_unknown = 0
        self.solver_s = 0.0
        self.obligations = {}  # label -> [checked, discharged]
        self.samples = []

    def merge(self, o: "Stats"):
        for k in ("paths", "aborted", "decisions", "forks", "q_sat", "q_unsat", "q_unknown"):
            setattr(self, k, getattr(self, k) + getattr(o, k))
        self.solver_s += o.solver_s
        for k, (c, d) in o.obligations.items():
            e = self.obligations.setdefault(k, [0, 0])
            e[0] += c
            e[1] += d
        self.samples.extend(o.samples[: max(0, 6 - len(self.samples))])

    def as_dict(self):
        return {
            "paths": self.paths,
            "paths_aborted": self.aborted,
            "branch_decisions": self.decisions,
            "forks": self.forks,
            "queries_sat": self.q_sat,
            "queries_unsat": self.q_unsat,
            "queries_unknown": self.q_unknown,
            "solver_s": round(self.solver_s, 3),
            "obligations": {k: {"checked": c, "discharged": d} for k, (c, d) in sorted(self.obligations.items())},
        }


class Explorer:
    """Depth-first path exploration by re-execution."""

    def __init__(self, body, *, name="case", max_paths=200000, time_budget=600.0, solver_timeout_ms=20000,
                 recip_mode=False, known_regions=None, max_cex_per_label=2, logic=None, part=None, witness_paths=3, cross_budget=0):
        self.body = body
        self.name = name
        self.max_paths = max_paths
        self.time_budget = time_budget
        self.solver_timeout_ms = solver_timeout_ms
        self.recip_mode = recip_mode
        self.known_regions = known_regions or {}  # label -> list[(region_id, builder(ctx)->z3 bool)]
        self.max_cex_per_label = max_cex_per_label
        self.stats = Stats()
        self.cex = []
        self.known_hits = []  # (label, region_id, values)
        self.incomplete = None
        self.logic = logic
        self.witness_paths = witness_paths
        self.cross_budget = cross_budget  # how many discharged obligations of this exploration get a second-solver opinion
        self.witnesses = []
        self.persist = {}  # survives across paths of this exploration (visited-state tables etc.)
        self.part = part  # (i, m): explore only the paths whose first m genuine forks follow the bits of i
        # per-path state
        self.solver = None
        self.prefix = []
        self.pos = 0
        self.pending = []
        self.inputs = {}
        self._fresh = 0
        self._axioms = set()
        self.notes = {}
        self.rnd_mode = False
        self.mul_abstract = False
        self.som_fastpath = False
        self.rnd_pairs = True
        self.rnd_terms = []
        self.scratch = {}

    # -- abstract rounding (sort R~): every IEEE round-to-nearest op satisfies these ground axioms
    def rnd(self, t):
        t = _real(t)
        if z3.is_rational_value(t):
            return t
        app = UF_RND(t)
        k = t.get_id()
        if k in self._axioms:
            return app
        self._axioms.add(k)
        self.solver.add(z3.Implies(t >= 0, app >= 0), z3.Implies(t <= 0, app <= 0))
        if self.rnd_pairs:
            for (u, uapp) in self.rnd_terms:
                self.solver.add(z3.Implies(u <= t, uapp <= app), z3.Implies(t <= u, app <= uapp),
                                z3.Implies(u == -t, uapp == -app))
        self.rnd_terms.append((t, app))
        return app

    def rnd_chain(self, terms):
        """monotonicity instances along a chain of terms known to be sorted (cheap for long grids)."""
        for a, b in zip(terms, terms[1:]):
            a, b = _real(lift(a)), _real(lift(b))
            self.solver.add(z3.Implies(a <= b, UF_RND(a) <= UF_RND(b)), z3.Implies(b <= a, UF_RND(b) <= UF_RND(a)))

    # -- variables -----------------------------------------------------------
    def real(self, name, lo=None, hi=None, strict=False):
        v = z3.Real(name)
        self.inputs[name] = v
        if lo is not None:
            self.solver.add(v > lift(lo) if strict else v >= lift(lo))
        if hi is not None:
            self.solver.add(v < lift(hi) if strict else v <= lift(hi))
        return Sym(v)

    def int(self, name, lo=None, hi=None):
        v = z3.Int(name)
        self.inputs[name] = v
        if lo is not None:
            self.solver.add(v >= lo)
        if hi is not None:
            self.solver.add(v <= hi)
        return Sym(v)

    def bool(self, name):
        v = z3.Bool(name)
        self.inputs[name] = v
        return SymBool(v)

    def fresh_real(self, stem="f"):
        self._fresh += 1
        return Sym(z3.Real(f"{stem}!{self._fresh}"))

    def reals(self, stem, shape, lo=None, hi=None):
        a = np.empty(shape, dtype=object)
        for idx in np.ndindex(*a.shape):
            a[idx] = self.real(stem + "_" + "_".join(map(str, idx)), lo, hi)
        return a

    def assume(self, c, check=True):
        """check=False: for side conditions that are obviously satisfiable (e.g. 'this denominator is non-zero') when a
        satisfiability query over nonlinear terms would be slow; vacuity is still guarded by the witness/reachability counts."""
        t = c.t if isinstance(c, SymBool) else c
        if isinstance(t, bool):
            if not t:
                raise PathAbort()
            return
        self.solver.add(t)
        if check and self._check() == z3.unsat:
            raise PathAbort()

    def axiom(self, t):
        k = t.get_id()
        if k in self._axioms:
            return
        self._axioms.add(k)
        self.solver.add(t)

    # -- solver access --------------------------------------------------------
    def _check(self, *assumptions, timeout_ms=None):
        import threading

        t0 = time.time()
        tmo = timeout_ms or self.solver_timeout_ms
        if timeout_ms:
            self.solver.set("timeout", timeout_ms)
        # watchdog: nlsat does not always honour the 'timeout' parameter
        wd = threading.Timer(tmo / 1000.0 + 2.0, self.solver.ctx.interrupt)
        wd.daemon = True
        wd.start()
        try:
            r = self.solver.check(*assumptions)
        except z3.Z3Exception:
            r = z3.unknown
        finally:
            wd.cancel()
            if timeout_ms:
                self.solver.set("timeout", self.solver_timeout_ms)
        self.stats.solver_s += time.time() - t0
        if r == z3.sat:
            self.stats.q_sat += 1
        elif r == z3.unsat:
            self.stats.q_unsat += 1
        else:
            self.stats.q_unknown += 1
        return r

    def decide(self, cond):
        cond = z3.simplify(cond)
        if z3.is_true(cond):
            return True
        if z3.is_false(cond):
            return False
        if self.pos < len(self.prefix):
            d = self.prefix[self.pos]
        else:
            r_t = self._check(cond)
            if r_t == z3.unsat:
                d = False
            else:
                r_f = self._check(z3.Not(cond))
                if r_f == z3.unsat:
                    d = True
                else:
                    if r_t == z3.unknown or r_f == z3.unknown:
                        self.incomplete = self.incomplete or "solver unknown at a branch"
                    nf = sum(1 for x in self.prefix[: self.pos] if isinstance(x, (_Forked, _Chosen)))
                    if self.part is not None and nf < self.part[1]:
                        d = _Forked((self.part[0] >> nf) & 1)
                    else:
                        d = _Forked(1)
                        self.pending.append(self.prefix[: self.pos] + [_Forked(0)])
                        self.stats.forks += 1
            self.prefix.append(d)
        self.pos += 1
        self.stats.decisions += 1
        self.solver.add(cond if d else z3.Not(cond))
        return bool(d)

    def choose(self, n, label="choice"):
        """Non-deterministic choice among range(n): forks (every value is feasible)."""
        if n <= 1:
            return 0
        if self.pos < len(self.prefix):
            d = self.prefix[self.pos]
        else:
            nf = sum(1 for x in self.prefix[: self.pos] if isinstance(x, (_Forked, _Chosen)))
            if self.part is not None and nf < self.part[1] and n == 2:
                d = _Chosen((self.part[0] >> nf) & 1)  # partitioned across workers like a binary fork
            else:
                d = _Chosen(0) if n == 2 else 0
                for k in range(n - 1, 0, -1):
                    self.pending.append(self.prefix[: self.pos] + [_Chosen(k) if n == 2 else k])
                self.stats.forks += n - 1
            self.prefix.append(d)
        self.pos += 1
        self.stats.decisions += 1
        return int(d)

    def unique_value(self, t):
        s = z3.simplify(t)
        v = z3_to_py(s)
        if v is not None and not isinstance(v, bool):
            return v
        if self._check() != z3.sat:
            return None
        m = self.solver.model()
        mv = m.eval(t, model_completion=True)
        if self._check(t != mv) == z3.unsat:
            return z3_to_py(mv)
        return None

    def concretize_int(self, t):
        s = z3.simplify(t)
        if z3.is_int_value(s):
            return s.as_long()
        # fork over the feasible values (bounded by the harness' assumptions)
        for _ in range(10000):
            if self.pos < len(self.prefix) and isinstance(self.prefix[self.pos], tuple):
                v = self.prefix[self.pos][1]
                self.pos += 1
                self.solver.add(t == v)
                return v
            r = self._check()
            if r != z3.sat:
                raise PathAbort()
            v = self.solver.model().eval(t, model_completion=True).as_long()
            if self.decide(t == v):
                return v
        raise SymUnsupported("unbounded integer concretisation")

    # -- obligations ------------------------------------------------------------
    def model_values(self, m):
        vals = {}
        for k, v in self.inputs.items():
            vals[k] = z3_to_py(m.eval(v, model_completion=True))
        return vals

    def prove(self, cond, label, detail=""):
        """Obligation: cond must hold for every value on this path."""
        t = cond.t if isinstance(cond, SymBool) else cond
        if isinstance(t, (bool, np.bool_)):
            t = z3.BoolVal(bool(t))
        ob = self.stats.obligations.setdefault(label, [0, 0])
        ob[0] += 1
        # fast path: z3's simplifier with sum-of-monomials normal form decides polynomial identities syntactically
        # fast path: the (cheap, default) simplifier already reduces the obligation to true, e.g. both sides of an equality
        # normalise to the same term
        try:
            if z3.is_true(z3.simplify(t)):
                ob[1] += 1
                self.stats.q_unsat += 1
                self.note("discharged_by_simplifier")
                return True
        except z3.Z3Exception:
            pass
        if self.som_fastpath:
            try:
                g = z3.Goal()
                g.add(t)
                res = z3.TryFor(z3.With("simplify", som=True), 3000)(g)
                if len(res) == 1 and len(res[0]) == 0:  # goal simplified to true
                    ob[1] += 1
                    self.stats.q_unsat += 1
                    self.note("discharged_by_som_simplifier")
                    return True
            except z3.Z3Exception:
                pass
        neg = z3.Not(t)
        extra = []
        for _ in range(8):
            r = self._check(neg, *extra)
            if r == z3.unsat:
                ob[1] += 1
                if self.cross_budget > 0:
                    self._cross_check(neg, extra, label)
                return True
            if r == z3.unknown:
                # sat-side fallback: pin the inputs to random small rationals (ground query, UFs stay free); a model found this
                # way is still confirmed by replay. The unsat side is never decided this way.
                r = self._random_model(neg, extra)
                if r != z3.sat:
                    self.incomplete = self.incomplete or f"solver unknown on obligation {label}"
                    return False
            m = self.solver.model()
            # z3 occasionally answers sat on nonlinear queries with a model that does not satisfy the query: never trust it blindly
            try:
                if z3.is_false(z3.simplify(m.eval(neg, model_completion=True))):
                    self.note("invalid_sat_model")
                    if self._random_model(neg, extra) != z3.sat:
                        self.incomplete = self.incomplete or f"solver returned an invalid model on obligation {label}"
                        return False
                    m = self.solver.model()
            except z3.Z3Exception:
                pass
            vals = self.model_values(m)
            hit = None
            for rid, builder in self.known_regions.get(label, []):
                reg = builder(self)
                if z3.is_true(m.eval(reg, model_completion=True)):
                    hit = (rid, reg)
                    break
            if hit is None:
                if sum(1 for c in self.cex if c.label == label) < self.max_cex_per_label:
                    cx = Cex(label, vals, detail, list(self.prefix[: self.pos]))
                    # alternative models (all real inputs moved off the first model's values): boundary-valued models
                    # often do not survive the conversion to binary64, a generic one does
                    cx.alternatives = []
                    block = []
                    mm = m
                    for _alt in range(2):
                        for k, v in self.inputs.items():
                            if v.sort().kind() == z3.Z3_REAL_SORT:
                                mv = mm.eval(v, model_completion=True)
                                pv = z3_to_py(mv)
                                if pv is None:
                                    continue
                                margin = _frac_to_z3(abs(Fraction(pv)) / 2**20 + Fraction(1, 2**20))
                                block.append(z3.Or(v >= mv + margin, v <= mv - margin))
                        if not block or self._check(neg, *extra, *block) != z3.sat:
                            break
                        mm = self.solver.model()
                        cx.alternatives.append(self.model_values(mm))
                    self.cex.append(cx)
                return False
            self.known_hits.append((label, hit[0], vals))
            extra.append(z3.Not(hit[1]))
        return False

    def _cross_check(self, neg, extra, label):
        """Second opinion on an `unsat` verdict: the same query as SMT-LIB2 text to other solver builds (z3 4.8.12 binary, cvc5
        binary). `sat` from another solver is a disagreement (reported as inconclusive), `unknown`/timeout is only counted."""
        import os
        import subprocess
        import tempfile

        self.cross_budget -= 1
        try:
            s2 = z3.Solver()
            s2.add(*self.solver.assertions())
            s2.add(neg, *extra)
            text = s2.to_smt2()
        except z3.Z3Exception:
            return
        fd, path = tempfile.mkstemp(suffix=".smt2", prefix="verif-x-")
        with os.fdopen(fd, "w") as fh:
            fh.write(text)
        try:
            for name, cmd in (("z3-4.8.12", ["/usr/bin/z3", "-T:10", path]), ("cvc5-1.0", ["cvc5", "--tlimit=10000", path])):
                try:
                    out = subprocess.run(cmd, capture_output=True, text=True, timeout=15).stdout.strip().splitlines()
                    verdict = out[0].strip() if out else "error"
                    if "(error" in "\n".join(out):
                        verdict = "error"
                except Exception:  # noqa: BLE001
                    verdict = "timeout"
                key = f"cross_{name}_{verdict if verdict in ('unsat', 'sat', 'unknown', 'timeout') else 'error'}"
                self.note(key)
                if verdict == "sat":
                    self.incomplete = self.incomplete or f"second solver {name} answers sat where z3 answered unsat (obligation {label})"
        finally:
            os.unlink(path)

    def _random_model(self, neg, extra, tries=24):
        import random

        rnd = random.Random(len(self.inputs) * 7919 + self.stats.paths)
        for _ in range(tries):
            pins = []
            for k, v in self.inputs.items():
                kind = v.sort().kind()
                if kind == z3.Z3_REAL_SORT:
                    pins.append(v == z3.RealVal(str(Fraction(rnd.randint(-24, 24), rnd.choice([1, 2, 4, 8])))))
                elif kind == z3.Z3_INT_SORT:
                    pins.append(v == rnd.randint(0, 6))
            if self._check(neg, *extra, *pins) == z3.sat:
                return z3.sat  # self.solver.model() is the model of this last check
        return z3.unknown

    def fail(self, label, detail=""):
        """Unconditional violation on this (feasible) path."""
        return self.prove(z3.BoolVal(False), label, detail)

    def note(self, key, n=1):
        self.notes[key] = self.notes.get(key, 0) + n

    def sample(self, obj):
        if len(self.stats.samples) < 4:
            self.stats.samples.append(obj)

    # -- main loop -----------------------------------------------------------------
    def _new_solver(self):
        s = z3.SolverFor(self.logic) if self.logic else z3.Solver()
        s.set("timeout", self.solver_timeout_ms)
        return s

    def run(self):
        global _CUR
        t0 = time.time()
        self.pending = [[]]
        while self.pending:
            if self.stats.paths + self.stats.aborted >= self.max_paths:
                self.incomplete = self.incomplete or f"path budget {self.max_paths} exhausted"
                break
            if time.time() - t0 > self.time_budget:
                self.incomplete = self.incomplete or f"time budget {self.time_budget}s exhausted"
                break
            self.prefix = self.pending.pop()
            self.pos = 0
            self.solver = self._new_solver()
            self.inputs = {}
            self._fresh = 0
            self._axioms = set()
            self.rnd_terms = []
            self.rnd_mode = False
            self.mul_abstract = False
            self.som_fastpath = False
            self.scratch = {}
            prev, _CUR = _CUR, self
            clear_library_caches()
            try:
                ncex = len(self.cex) + len(self.known_hits)
                self.body(self)
                self.stats.paths += 1
                if len(self.witnesses) < self.witness_paths and ncex == len(self.cex) + len(self.known_hits) and self.inputs \
                        and (self.stats.paths <= 1 or self.stats.paths % 7 == 3 or not self.pending):
                    if self._check(timeout_ms=2500) == z3.sat:  # witness search is best-effort (nonlinear models can be slow)
                        self.witnesses.append(self.model_values(self.solver.model()))
                    else:
                        self.stats.q_unknown -= 1 if self.stats.q_unknown > 0 else 0
            except PathAbort:
                self.stats.aborted += 1
            except (SymUnsupported, Inconclusive, HarnessLimit) as e:
                self.incomplete = self.incomplete or f"{type(e).__name__}: {e}"
                self.stats.aborted += 1
            except z3.Z3Exception as e:  # the ENGINE failed to build a term (sort mismatch, ...): a gap of the lifting, not a verdict
                self.incomplete = self.incomplete or f"engine limitation (z3 term construction): {e}"
                self.stats.aborted += 1
            except Exception as e:  # the real code raised on a feasible path: a candidate violation, decided by replay
                import traceback as _tb

                if isinstance(e, _HARNESS_ERRORS) and harness_originated(e):
                    self.incomplete = self.incomplete or f"harness limitation: {type(e).__name__}: {e} (raised by checker code: a private name or signature it relies on has changed)"
                    self.stats.aborted += 1
                    continue

                self.stats.paths += 1
                ob = self.stats.obligations.setdefault("no_unexpected_exception", [0, 0])
                ob[0] += 1
                tb = "".join(_tb.format_exception(type(e), e, e.__traceback__)[-4:])[-700:]
                if sum(1 for c in self.cex if c.label == "no_unexpected_exception") < self.max_cex_per_label:
                    vals = {}
                    if self._check() == z3.sat:
                        vals = self.model_values(self.solver.model())
                    self.cex.append(Cex("no_unexpected_exception", vals, f"{type(e).__name__}: {e} | {tb}", list(self.prefix[: self.pos]), kind="exception"))
            finally:
                _CUR = prev
                clear_library_caches()
        return self


def data_decisions(ctx):
    """The branch decisions (forced or forked) taken so far on this path, without the scheduling choices."""
    return tuple(bool(d) for d in ctx.prefix[: ctx.pos] if isinstance(d, (bool, _Forked)))


def schedule_of(cex):
    """The explorer's `choose` decisions (thread-schedule choices) of a counterexample, in order."""
    return [int(d) for d in cex.path if not isinstance(d, (bool, _Forked, tuple))]


def explore(body, **kw) -> Explorer:
    return Explorer(body, **kw).run()


# ----------------------------------------------------------------------------
# bit-precise IEEE-754 scalars at reduced width (sort F16): only what get_closest needs

FP16 = z3.Float16()
_RNE = z3.RNE()


class SymFP(Sym):
    """A symbolic IEEE-754 half-precision number (z3 FloatingPoint sort): every operation is the bit-precise IEEE one."""

    __slots__ = ()

    @staticmethod
    def _l(o):
        if isinstance(o, SymFP):
            return o.t
        if isinstance(o, (int, float, np.floating, np.integer)):
            return z3.FPVal(float(o), FP16)
        return NotImplemented

    def _fb(self, o, f, swap=False):
        ot = SymFP._l(o)
        if ot is NotImplemented:
            return NotImplemented
        a, b = (ot, self.t) if swap else (self.t, ot)
        return SymFP(f(a, b))

    def __sub__(self, o):
        return self._fb(o, lambda a, b: z3.fpSub(_RNE, a, b))

    def __rsub__(self, o):
        return self._fb(o, lambda a, b: z3.fpSub(_RNE, a, b), True)

    def __add__(self, o):
        return self._fb(o, lambda a, b: z3.fpAdd(_RNE, a, b))

    __radd__ = __add__

    def __mul__(self, o):
        return self._fb(o, lambda a, b: z3.fpMul(_RNE, a, b))

    __rmul__ = __mul__

    def __truediv__(self, o):
        return self._fb(o, lambda a, b: z3.fpDiv(_RNE, a, b))

    def __rtruediv__(self, o):
        return self._fb(o, lambda a, b: z3.fpDiv(_RNE, a, b), True)

    def __neg__(self):
        return SymFP(z3.fpNeg(self.t))

    def __abs__(self):
        return SymFP(z3.fpAbs(self.t))

    def _fc(self, o, f):
        ot = SymFP._l(o)
        if ot is NotImplemented:
            return NotImplemented
        return SymBool(f(self.t, ot))

    def __lt__(self, o):
        return self._fc(o, z3.fpLT)

    def __le__(self, o):
        return self._fc(o, z3.fpLEQ)

    def __gt__(self, o):
        return self._fc(o, z3.fpGT)

    def __ge__(self, o):
        return self._fc(o, z3.fpGEQ)

    def __eq__(self, o):
        return self._fc(o, z3.fpEQ)

    def __ne__(self, o):
        return self._fc(o, lambda a, b: z3.Not(z3.fpEQ(a, b)))

    def __hash__(self):
        return hash(self.t)

    def __repr__(self):
        return f"SymFP({self.t})"


def fp16_var(ctx, name):
    v = z3.FP(name, FP16)
    ctx.inputs[name] = v
    ctx.solver.add(z3.Not(z3.fpIsNaN(v)), z3.Not(z3.fpIsInf(v)))
    return SymFP(v)
