"""Driver: ./check <Cxx> --tier quick|thorough [--replay path]

exit 0  property held on everything explored (KNOWN-FINDING lines allowed)
exit 1  reproduced violation outside the known-finding regions (VIOLATION line)
exit 2  harness error / inconclusive (solver unknown, budget exhausted, non-reproducing counterexample)
"""
from __future__ import annotations

import argparse
import hashlib
import importlib
import inspect
import io
import json
import multiprocessing as mp
import os
import sys
import time
import traceback
from contextlib import redirect_stdout
from pathlib import Path

ROOT = Path(__file__).resolve().parent.parent
EVID = ROOT / "evidence"
REPLAYS = ROOT / "replays"
KNOWN = ROOT / "known_findings.json"


def load_known(pid):
    if not KNOWN.exists():
        return []
    data = json.loads(KNOWN.read_text())
    return [e for e in data.get("findings", []) if e.get("property") == pid]


def _load(pid):
    return importlib.import_module(f"harness.{pid}")


def _src_hash(fn_specs):
    out = []
    for spec in fn_specs:
        modname, _, qual = spec.partition(":")
        try:
            obj = importlib.import_module(modname)
            for part in qual.split("."):
                if part.startswith("__") and not part.endswith("__"):
                    # private name mangling
                    cands = [k for k in vars(obj) if k.endswith(part)]
                    part = cands[0] if cands else part
                obj = inspect.getattr_static(obj, part)
                if isinstance(obj, (staticmethod, classmethod)):
                    obj = obj.__func__
                if isinstance(obj, property):
                    obj = obj.fget
            src = inspect.getsource(obj)
            lines = inspect.getsourcelines(obj)[1]
            fname = inspect.getsourcefile(obj)
            out.append({"function": spec, "file": f"{fname}:{lines}", "sha1": hashlib.sha1(src.encode()).hexdigest()[:12]})
        except Exception as e:  # a rename => harness error, not a verdict
            out.append({"function": spec, "error": f"{type(e).__name__}: {e}"})
    return out


def _worker(args):
    pid, tier, seed, idx, part = args
    sys.setrecursionlimit(10000)
    from symx.core import HarnessLimit, Explorer

    t0 = time.time()
    res = {"idx": idx, "name": "?", "stats": None, "cex": [], "known_hits": [], "incomplete": None, "notes": {}, "error": None, "witness_ok": 0, "witness_bad": []}
    try:
        H = _load(pid)
        cases = H.cases(tier, seed)
        case = cases[idx]
        res["name"] = case.name + (f"#{part[0]}" if part else "")
        kw = dict(case.kw)
        kw.pop("split", None)
        if part and part[0] != 0:
            kw["witness_paths"] = 0  # witness replays (real code, possibly slow) once per case, not once per partition
        if not part or part[0] == 0:
            kw.setdefault("cross_budget", 2 if tier == "quick" else 8)
        if tier == "thorough":
            kw["time_budget"] = 4 * kw.get("time_budget", 600.0)  # the thorough tier may take its time; a budget hit is still reported as inconclusive
        known = [e for e in load_known(pid) if e.get("status") == "known"]
        regions = {}
        for e in known:
            reg = getattr(H, "REGIONS", {}).get(e["region"])
            if reg is None:
                continue
            label, builder = reg
            regions.setdefault(label, []).append((e["id"], builder))
        buf = io.StringIO()
        with redirect_stdout(buf):
            ex = Explorer(case.body, name=case.name, known_regions=regions, part=part, **kw).run()
        res["stats"] = ex.stats.as_dict()
        res["samples"] = ex.stats.samples
        res["incomplete"] = ex.incomplete
        res["notes"] = ex.notes
        # replay counterexamples on the real, unpatched code
        for c in ex.cex:
            j = c.to_json()
            j["case"] = case.name
            ok, info = False, ""
            from symx.core import Cex as _Cex

            # last resorts: a generic instance near the model (boundary-valued models such as all-zero data often make both sides
            # coincide) and the replayer's own default instance. Sound: only what REPRODUCES on the real code is reported.
            from fractions import Fraction as _Fr

            generic = dict(c.values)
            for i, k in enumerate(sorted(k for k, v in c.values.items() if isinstance(v, _Fr))):
                generic[k] = c.values[k] + _Fr(137 * (i + 1) % 1000, 1000) + _Fr(i, 7)
            for vals in [c.values] + list(getattr(c, "alternatives", [])) + ([generic, {}] if c.kind != "exception" and not (regions or {}).get(c.label) else []):  # never where a known-finding region exists
                try:
                    with redirect_stdout(buf):
                        ok, info = case.replay(_Cex(c.label, vals, c.detail, c.path, c.kind))
                except HarnessLimit as e:
                    ok, info = False, f"harness limitation in the replay: {e}"
                    break
                except Exception as e:
                    ok, info = False, f"replay raised {type(e).__name__}: {e}\n{traceback.format_exc()[-600:]}"
                    # the symbolic run saw the real code raise this very exception type: the replay raising it again reproduces it
                    if c.kind == "exception" and c.detail.startswith(type(e).__name__ + ":") and "/repo/" in traceback.format_exc():
                        ok, info = True, f"real code raised {type(e).__name__}: {e} (as on the symbolic path)"
                if ok:
                    c.values = vals
                    j = c.to_json()
                    j["case"] = case.name
                    break
            j["reproduced"] = bool(ok)
            j["replay_info"] = str(info)[:1500]
            res["cex"].append(j)
        # witness traces: a model of a fully discharged path is run through the real code; the concrete oracle must agree
        res["witness_ok"] = 0
        res["witness_bad"] = []
        from symx.core import Cex as _Cex2

        for w in ex.witnesses:
            try:
                with redirect_stdout(buf):
                    ok, info = case.replay(_Cex2("witness", w, "witness of a discharged path"))
            except HarnessLimit as e:
                ok, info = False, f"harness limitation in the replay: {e}"  # no verdict either way
                res["incomplete"] = res.get("incomplete") or f"witness replay: {e}"
            except Exception as e:
                ok, info = True, f"replay raised {type(e).__name__}: {e}\n{traceback.format_exc()[-500:]}"
            if ok:
                res["witness_bad"].append(str(info)[:500])
            else:
                res["witness_ok"] += 1
        seen = set()
        for label, rid, vals in ex.known_hits:
            if rid in seen:
                continue
            seen.add(rid)
            from symx.core import Cex

            c = Cex(label, vals, "known region " + rid)
            try:
                with redirect_stdout(buf):
                    ok, info = case.replay(c)
            except Exception as e:
                ok, info = False, f"replay raised {type(e).__name__}: {e}"
            res["known_hits"].append({"id": rid, "label": label, "case": case.name, "reproduced": bool(ok), "info": str(info)[:600], "values": c.to_json()["values"]})
    except BaseException as e:  # noqa: BLE001
        res["error"] = f"{type(e).__name__}: {e}\n{traceback.format_exc()[-2500:]}"
    res["wall_s"] = round(time.time() - t0, 3)
    return res


def run_check(pid, tier, seed, jobs):
    t0 = time.time()
    H = _load(pid)
    pre = getattr(H, "precheck", None)
    pre_info = {}
    if pre is not None:
        pre_info = pre(tier, seed) or {}
    cs = H.cases(tier, seed)
    tasks = []
    for i, cse in enumerate(cs):
        m = int(cse.kw.get("split", 0) or 0)
        if m:
            tasks += [(pid, tier, seed, i, (p, m)) for p in range(2**m)]
        else:
            tasks.append((pid, tier, seed, i, None))
    # heavy (split) tasks first
    tasks.sort(key=lambda t: 0 if t[4] else 1)
    # non-daemonic worker processes: replays may start processes of their own (joblib) and threads
    from concurrent.futures import ProcessPoolExecutor

    ctx = mp.get_context("fork")
    with ProcessPoolExecutor(max_workers=min(jobs, max(1, len(tasks))), mp_context=ctx) as pool:
        results = list(pool.map(_worker, tasks, chunksize=1))
    return H, results, pre_info, time.time() - t0


def summarise(pid, tier, seed, H, results, pre_info, wall):
    from symx.core import Stats

    tot = {"paths": 0, "paths_aborted": 0, "branch_decisions": 0, "forks": 0, "queries_sat": 0, "queries_unsat": 0,
           "queries_unknown": 0, "solver_s": 0.0}
    obligations = {}
    errors, incompl, cex_all, known_hits = [], [], [], []
    samples = []
    notes = {}
    wit_ok, wit_bad = 0, []
    for r in results:
        if r["error"]:
            errors.append(f"{r['name']}: {r['error']}")
            continue
        st = r["stats"]
        for k in tot:
            tot[k] += st[k]
        for k, v in st["obligations"].items():
            e = obligations.setdefault(k, {"checked": 0, "discharged": 0})
            e["checked"] += v["checked"]
            e["discharged"] += v["discharged"]
        if r["incomplete"]:
            incompl.append(f"{r['name']}: {r['incomplete']}")
        if st["paths"] == 0 and "#" not in r["name"]:
            errors.append(f"{r['name']}: vacuous (0 completed paths)")
        cex_all.extend(r["cex"])
        wit_ok += r.get("witness_ok", 0)
        for wb in r.get("witness_bad", []):
            wit_bad.append(f"{r['name']}: {wb}")
        known_hits.extend(r["known_hits"])
        for s in r.get("samples", []):
            if len(samples) < 6:
                samples.append({"case": r["name"], "sample": s})
        for k, v in r["notes"].items():
            notes[k] = notes.get(k, 0) + v
    n_ob = sum(v["checked"] for v in obligations.values())
    n_dis = sum(v["discharged"] for v in obligations.values())
    if wit_bad and not violations_placeholder(cex_all):
        for wb in wit_bad[:3]:
            incompl.append("witness disagreement (solver discharged the path, concrete replay reports a violation): " + wb)
    if n_ob == 0 and not errors:
        errors.append("vacuous: no obligation was checked")
    for lab in getattr(H, "REQUIRED_LABELS", []):
        if obligations.get(lab, {}).get("checked", 0) == 0 and not errors:
            errors.append(f"vacuous: required obligation '{lab}' was never reached")
    violations = [c for c in cex_all if c["reproduced"]]
    unrepro = [c for c in cex_all if not c["reproduced"]]
    fns = _src_hash(getattr(H, "FUNCTIONS", []))
    renamed = [f for f in fns if "error" in f]
    # The FUNCTIONS list documents what was executed (evidence). A listed private helper that no longer exists under that name is
    # only an error when the cases did not get through (then some obligation is missing / a harness limitation was reported);
    # when every required obligation was reached and decided the code that replaced it has been executed all the same.
    if renamed and (errors or incompl):
        for f in renamed:
            errors.append(f"encoded function not found: {f['function']} ({f['error']})")
    tot["solver_s"] = round(tot["solver_s"], 3)
    level = getattr(H, "LEVEL", "other")
    cov = {
        "explanation": getattr(H, "EXPLANATION", ""),
        "technique": "symbolic execution of the real functions (object-array lifting) + z3 per path; counterexamples replayed on unpatched code",
        "functions_encoded": fns,
        "number_model": getattr(H, "NUMBER_MODEL", "R (exact reals/ints)"),
        "bounds": H.bounds(tier) if hasattr(H, "bounds") else "",
        "outside_claim": getattr(H, "OUTSIDE", []),
        "cases": len({r["name"].split("#")[0] for r in results}),
        "states": tot["paths"],
        "transitions": tot["branch_decisions"],
        "traces_validated_against_impl": wit_ok + len(cex_all) + len(known_hits) + int(pre_info.get("validated", 0)),
        "witness_traces": {"agree": wit_ok, "disagree": len(wit_bad), "what": "models of fully discharged paths replayed on the real unpatched code; the concrete oracle must report no violation"},
        "obligations": n_ob,
        "discharged": n_dis,
        "obligations_by_label": obligations,
        "solver": {"engine": "z3 " + _z3v(), **{k: tot[k] for k in ("queries_sat", "queries_unsat", "queries_unknown", "solver_s")}},
        "paths_aborted": tot["paths_aborted"],
        "forks": tot["forks"],
        "evaluations": tot["paths"],
        "distinct_nontrivial": tot["paths"],
        "rule": "one evaluation = one explored path of the real code (distinct decision vector, feasible per z3); every obligation on it is decided by the solver for all values on that path",
        "samples": samples or [{"note": "no sample recorded"}],
        "exhaustive": not incompl and not errors,
        "precheck": pre_info,
        "notes": notes,
        "known_findings_hit": known_hits,
        "counterexamples": cex_all[:10],
        "inconclusive": incompl[:10],
        "errors": [e[:800] for e in errors[:10]],
        "functions_not_found_under_their_name": [f["function"] for f in renamed],
    }
    ev = {
        "property_id": pid,
        "tier": tier,
        "seed": seed,
        "level": level,
        "coverage": cov,
        "assumptions": list(getattr(H, "ASSUMPTIONS", [])),
        "wall_s": round(wall, 2),
        "violations": len(violations),
    }
    return ev, violations, unrepro, errors, incompl, known_hits


def violations_placeholder(cex_all):
    return any(c["reproduced"] for c in cex_all)


def _z3v():
    import z3

    return z3.get_version_string()


def main(argv=None):
    ap = argparse.ArgumentParser()
    ap.add_argument("pid")
    ap.add_argument("--tier", default=os.environ.get("VERIF_TIER", "quick"), choices=["quick", "thorough"])
    ap.add_argument("--replay")
    ap.add_argument("--jobs", type=int, default=int(os.environ.get("VERIF_JOBS", "16")))
    a = ap.parse_args(argv)
    pid = a.pid
    seed = int(os.environ.get("VERIF_SEED", "0") or 0)
    sys.path.insert(0, str(ROOT))
    os.chdir(ROOT)
    if a.replay:
        return do_replay(pid, a.replay, a.tier, seed)
    EVID.mkdir(exist_ok=True)
    try:
        H, results, pre_info, wall = run_check(pid, a.tier, seed, a.jobs)
        ev, violations, unrepro, errors, incompl, known_hits = summarise(pid, a.tier, seed, H, results, pre_info, wall)
    except Exception as e:
        print(f"HARNESS-ERROR property={pid} {type(e).__name__}: {e}")
        traceback.print_exc()
        _write_min_evidence(pid, a.tier, seed, f"{type(e).__name__}: {e}")
        return 2
    (EVID / f"{pid}.json").write_text(json.dumps(ev, indent=1, default=str))
    c = ev["coverage"]
    print(f"[{pid}] tier={a.tier} cases={c['cases']} paths={c['states']} decisions={c['transitions']} "
          f"obligations={c['discharged']}/{c['obligations']} queries(sat/unsat/unknown)="
          f"{c['solver']['queries_sat']}/{c['solver']['queries_unsat']}/{c['solver']['queries_unknown']} "
          f"solver={c['solver']['solver_s']}s wall={ev['wall_s']}s")
    seen = set()
    for k in known_hits:
        if k["id"] in seen:
            continue
        seen.add(k["id"])
        what = next((e.get("what", "") for e in load_known(pid) if e["id"] == k["id"]), "")
        print(f"KNOWN-FINDING: property={pid} {k['id']}: {what} (reproduced={k['reproduced']})")
    if os.environ.get("VERIF_VERBOSE"):
        for r in sorted(results, key=lambda r: -r["wall_s"])[:12]:
            print(f"   case {r['name']}: wall={r['wall_s']}s paths={r['stats']['paths'] if r['stats'] else None}")
    rc = 0
    if violations:
        REPLAYS.mkdir(exist_ok=True)
        done = set()
        for v in violations:
            key = (v["case"], v["label"])
            if key in done:
                continue
            done.add(key)
            h = hashlib.sha1(json.dumps(v, sort_keys=True, default=str).encode()).hexdigest()[:10]
            p = REPLAYS / f"{pid}-{h}.json"
            p.write_text(json.dumps({"property": pid, "tier": a.tier, "seed": seed, **v}, indent=1, default=str))
            print(f"VIOLATION property={pid} replay={p}")
            print(f"  case={v['case']} obligation={v['label']} {v['detail']}\n  {v['replay_info'][:400]}")
        rc = 1
    if errors:
        for e in errors[:5]:
            print(f"HARNESS-ERROR property={pid} {e[:1500]}")
        rc = rc or 2
    if unrepro and not violations:
        for u in unrepro[:5]:
            print(f"INCONCLUSIVE property={pid} counterexample for '{u['label']}' in {u['case']} did not reproduce on the real code: {u['replay_info'][:300]}")
        rc = rc or 2
    if incompl:
        for e in incompl[:5]:
            print(f"INCONCLUSIVE property={pid} {e}")
        rc = rc or 2
    if rc == 0:
        print(f"OK property={pid}")
    return rc


def _write_min_evidence(pid, tier, seed, err):
    ev = {"property_id": pid, "tier": tier, "seed": seed, "level": "other",
          "coverage": {"explanation": "harness error: " + err, "evaluations": 0, "distinct_nontrivial": 0}, "wall_s": 0.0, "violations": 0}
    EVID.mkdir(exist_ok=True)
    (EVID / f"{pid}.json").write_text(json.dumps(ev, indent=1))


def do_replay(pid, path, tier, seed):
    from fractions import Fraction

    from symx.core import Cex

    data = json.loads(Path(path).read_text())
    tier = data.get("tier", tier)
    seed = data.get("seed", seed)
    H = _load(pid)
    cases = {c.name: c for c in H.cases(tier, seed)}
    case = cases[data["case"]]

    def dec(v):
        if isinstance(v, dict) and "num" in v:
            return Fraction(int(v["num"]), int(v["den"]))
        return v

    c = Cex(data["label"], {k: dec(v) for k, v in data["values"].items()}, data.get("detail", ""))
    c.path = [d[1] if d[0] == "c" else bool(d[1]) for d in data.get("decisions", [])]
    ok, info = case.replay(c)
    print(f"replay property={pid} case={case.name} obligation={c.label} reproduced={ok}\n{info}")
    return 1 if ok else 0


if __name__ == "__main__":
    sys.exit(main())
